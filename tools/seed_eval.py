#!/usr/bin/env python3
"""Confirm a seeded change delivered by a sub-agent and run the checks against it.

  tools/seed_eval.py <worktree> <label A|B> <property id> [check ids ...]

Steps (all in the scratch worktree, never in /repo):
  1. unchanged tree: the demonstration passes
  2. apply the diff: go build, the repository's own suite passes, the demonstration fails
  3. run the quick tier of the given checks (default: all) against the changed worktree (VERIF_REPO)
  4. undo the change; store patch.diff, the demonstration and meta.json under /verif/seeded/<id>-<label>/
"""
import json, os, shutil, subprocess, sys

ROOT = os.path.dirname(os.path.dirname(os.path.abspath(__file__)))
sys.path.insert(0, ROOT)
from props import PROPS  # noqa: E402
ENV = dict(os.environ, GOFLAGS="-mod=mod", GOPROXY="off", GOSUMDB="off", GOTOOLCHAIN="local")


def run(cmd, cwd, env=ENV, timeout=3000):
    p = subprocess.run(cmd, cwd=cwd, env=env, stdout=subprocess.PIPE, stderr=subprocess.STDOUT, text=True, timeout=timeout)
    return p.returncode, p.stdout


def main():
    wt, label, pid = sys.argv[1], sys.argv[2], sys.argv[3]
    checks = sys.argv[4:] or sorted(PROPS)
    diff = os.path.join(wt, f"seed{label}.diff")
    demo = f"./seeddemo_{label.lower()}/..."
    meta = dict(property=pid, label=label, worktree=wt, ran=[])
    rc, out = run(["git", "status", "--porcelain", "--untracked-files=no"], wt)
    if out.strip():
        print("worktree has tracked changes:", out)
        return 2
    race = ["-race"] if pid == "C14" else []
    rc, out = run(["go", "test", "-vet=off", "-count=1"] + race + [demo], wt)
    meta["demo_on_unchanged"] = "pass" if rc == 0 else "FAIL"
    meta["ran"].append(f"go test -vet=off -count=1 {' '.join(race)} {demo}   (unchanged tree) -> rc={rc}")
    rc, out = run(["git", "apply", diff], wt)
    if rc != 0:
        print("diff does not apply", out)
        return 2
    try:
        rc, out = run(["go", "build", "./..."], wt)
        meta["builds"] = rc == 0
        rc, out = run(["go", "test", "-vet=off", "-count=1", "./..."], wt)
        # the demo directories are part of ./... : look at the library packages only
        pk = [l for l in out.splitlines() if l.startswith(("FAIL", "---", "ok", "panic"))]
        lib_fail = [l for l in pk if l.startswith("FAIL") and "seeddemo" not in l and l.strip() != "FAIL"]
        meta["suite_with_change"] = "pass" if not lib_fail else "FAIL: " + "; ".join(lib_fail)
        meta["ran"].append("go test -vet=off -count=1 ./...   (changed tree; seeddemo packages ignored) -> " + meta["suite_with_change"])
        rc, out = run(["go", "test", "-vet=off", "-count=1"] + race + [demo], wt)
        meta["demo_on_changed"] = "fail (as intended)" if rc != 0 else "PASSES (change not demonstrated)"
        meta["ran"].append(f"go test -vet=off -count=1 {' '.join(race)} {demo}   (changed tree) -> rc={rc}")
        meta["checks"] = {}
        evd = f"/tmp/seed-ev-{os.getpid()}"
        for c in checks:
            env = dict(ENV, VERIF_REPO=wt, VERIF_EVIDENCE_DIR=evd)
            rc, out = run([os.path.join(ROOT, "check"), c, "--tier", "quick"], ROOT, env)
            detail = ""
            lines = out.splitlines()
            for i, line in enumerate(lines):
                if "found a violation" in line or "data race" in line or "fatal" in line or "REPLAY-VIOLATION" in line:
                    detail = " ".join(lines[i + 1:i + 3])[:300]
                    break
            meta["checks"][c] = dict(rc=rc, detail=detail)
            meta["ran"].append(f"VERIF_REPO={wt} ./check {c} --tier quick -> rc={rc}")
        shutil.rmtree(evd, ignore_errors=True)
    finally:
        run(["git", "checkout", "--", "."], wt)
    caught = [c for c, v in meta["checks"].items() if v["rc"] == 1]
    meta["caught_by"] = caught
    d = os.path.join(ROOT, "seeded", f"{pid}-{label}")
    os.makedirs(d, exist_ok=True)
    shutil.copy(diff, os.path.join(d, "patch.diff"))
    shutil.copy(os.path.join(wt, f"seeddemo_{label.lower()}", "demo_test.go"), os.path.join(d, "demo_test.go"))
    notes = os.path.join(wt, "SEED_NOTES.md")
    if os.path.exists(notes):
        shutil.copy(notes, os.path.join(d, "SEED_NOTES.md"))
    json.dump(meta, open(os.path.join(d, "meta.json"), "w"), indent=1)
    print(pid, label, "demo unchanged:", meta["demo_on_unchanged"], "| suite:", meta["suite_with_change"], "| demo changed:", meta["demo_on_changed"], "| caught by:", caught,
          "| silent:", [c for c, v in meta["checks"].items() if v["rc"] == 0], "| inconclusive:", [c for c, v in meta["checks"].items() if v["rc"] not in (0, 1)])
    return 0


if __name__ == "__main__":
    sys.exit(main())
