#!/bin/sh
# usage: try_mutant.sh <patch-file | revert:<commit>> <ID>...   (applies to /repo, runs quick checks, restores)
# Development helper for sensitivity studies; never leaves /repo modified.
set -u
what="$1"; shift
cd /repo || exit 2
if [ -n "$(git status --porcelain)" ]; then echo "/repo is not clean"; exit 2; fi
case "$what" in
  revert:*) git show "${what#revert:}" | git apply -R || exit 2 ;;
  *) git apply "$what" || exit 2 ;;
esac
export GOFLAGS=-mod=mod GOPROXY=off GOSUMDB=off GOTOOLCHAIN=local
if ! go build ./... >/dev/null 2>&1; then echo "MUTANT DOES NOT BUILD"; git checkout -- .; exit 2; fi
for id in "$@"; do
  out=$(cd /verif && ./check "$id" --tier quick 2>&1)
  rc=$?
  echo "$id rc=$rc $(echo "$out" | grep -c '^VIOLATION') violation(s): $(echo "$out" | grep -m1 -A2 'found a violation\|data race\|fatal' | tr '\n' ' ' | cut -c1-300)"
done
git checkout -- .
git status --porcelain
