#!/usr/bin/env python3
"""Sensitivity study: deliberate breakages of opsidian/parsley, applied one at a time in scratch
worktrees outside /repo and /verif, each run against the repository's own test suite and against
the quick tier of the checks that should notice it.

  tools/sensitivity.py [name-substring ...]        results -> sensitivity/results.json, results.md

The mutants are (file, old text, new text) replacements; every worktree is removed afterwards.
"""
import json, os, subprocess, sys, shutil, concurrent.futures as cf

ROOT = os.path.dirname(os.path.dirname(os.path.abspath(__file__)))
ENV = dict(os.environ, GOFLAGS="-mod=mod", GOPROXY="off", GOSUMDB="off", GOTOOLCHAIN="local")

M = []


def mut(name, file, old, new, checks, note=""):
    M.append(dict(name=name, file=file, old=old, new=new, checks=checks, note=note))


# ---- memoization / left recursion
mut("cache-get-ignores-context", "parsley/result_cache.go",
    "		if result.LeftRecCtx.Get(key) > leftRecCtx.Get(key) {\n			return nil, false\n		}",
    "		if result.LeftRecCtx.Get(key) > leftRecCtx.Get(key) {\n			continue\n		}", ["C01", "C04", "C05"])
mut("seq-forgets-curtailing-parsers", "combinator/seq.go",
    "	if mergeCurtailingParsers {\n		s.curtailingParsers = s.curtailingParsers.Union(cp)\n	}",
    "	_ = cp", ["C01"])
mut("any-forgets-curtailing-parsers", "combinator/any.go", "			cp = cp.Union(cp2)\n", "			_ = cp2\n", ["C01"])
mut("memoize-curtail-empty-set", "combinator/memoize.go", "			return nil, data.NewIntSet(parserIndex), nil", "			return nil, data.EmptyIntSet, nil", ["C01"])
mut("curtail-bound-much-larger", "combinator/memoize.go", "ctx.Reader().Remaining(pos)+1", "ctx.Reader().Remaining(pos)+12", ["C02"])
mut("curtail-bound-one-less", "combinator/memoize.go", "ctx.Reader().Remaining(pos)+1", "ctx.Reader().Remaining(pos)", ["C01", "C05", "C17"], "the design judged this equivalent; it is not: with the limit one lower a nullable left-recursive rule loses its one-byte derivations (C01 reports N0@0 reaching [0] where the grammar derives [0 1])")
mut("memoize-hit-drops-error", "combinator/memoize.go", "			return result.Node, result.CurtailingParsers, result.Error", "			return result.Node, result.CurtailingParsers, nil", ["C03", "C06"])
mut("cache-keyed-without-position", "parsley/result_cache.go", "	rc[parserIndex][pos] = result", "	rc[parserIndex][pos%2] = result", ["C03", "C01"])
mut("cache-never-reuses-contextfree", "parsley/result_cache.go",
    "	result, found := rc[parserIndex][pos]\n	if !found {\n		return nil, false\n	}",
    "	result, found := rc[parserIndex][pos]\n	if !found || len(leftRecCtx.Keys()) > 0 {\n		return nil, false\n	}", ["C17", "C03"])
mut("memoize-no-filter", "combinator/memoize.go", "		leftRecCtx = leftRecCtx.Filter(cp)\n", "", ["C17", "C01"], "the design judged this a constant factor (two-level grammars); with four or more stacked left-recursive levels the degree exceeds four: C17 reports it on the precedence towers")
mut("seq-reset-ctx-always", "combinator/seq.go", "	if node.ReaderPos() > pos {", "	if node.ReaderPos() >= pos {", ["C02", "C01"])
mut("memoize-no-clip", "combinator/memoize.go", "			node = nl[:len(nl):len(nl)]", "			node = nl", ["C01", "C07", "C03"])
# ---- combinator semantics
mut("optional-empty-only-on-failure", "combinator/optional.go",
    "		return ast.AppendNode(res, ast.EmptyNode(pos)), cp, err",
    "		if res != nil {\n			return res, cp, err\n		}\n		return ast.AppendNode(res, ast.EmptyNode(pos)), cp, err", ["C01"])
mut("many-refuses-empty", "combinator/many.go", "		return allowEmpty || len > 0", "		return len > 0", ["C01"])
mut("sepby-trailing-separator", "combinator/sep_by.go", "		return (len == 0 && allowEmpty) || len%2 == 1", "		return (len == 0 && allowEmpty) || len > 0", ["C01", "C16"])
mut("choice-keeps-going", "combinator/choice.go",
    "			if node != nil {\n				ctx.SetError(err)\n				return node, cp, nil\n			}",
    "			if node != nil && p == parsers[len(parsers)-1] {\n				ctx.SetError(err)\n				return node, cp, nil\n			}", ["C01", "C16"])
mut("seqtry-requires-two", "combinator/seq.go", "		return len > 0 && len <= l\n", "		return len > 1 && len <= l || l == 1 && len == 1\n", ["C01"])
mut("seqfirstorall-any-prefix", "combinator/seq.go", "		return len == 1 || len == l\n", "		return len >= 1 && len <= l\n", ["C01"])
mut("seq-handler-no-copy", "combinator/seq.go",
    "		nodesCopy := make([]parsley.Node, l)\n		copy(nodesCopy, nodes)\n", "		nodesCopy := nodes\n", ["C07", "C01"])
mut("sentence-eof-exit-ignores-lencheck", "combinator/seq.go",
    "				if s.nodes[depth-1] != nil && s.nodes[depth-1].Token() == parser.EOF {\n					return true\n				}",
    "				if s.nodes[depth-1] != nil && s.nodes[depth-1].Token() == parser.EOF {\n					return false\n				}", ["C04", "C01"], "not equivalent: Parse then returns a list of all full parses for an ambiguous grammar and Evaluate answers 'node does not have a value' (the repository suite notices it too)")
# ---- errors
mut("seq-error-keeps-lowest", "combinator/seq.go", "(s.err == nil || err.Pos() >= s.err.Pos())", "(s.err == nil || err.Pos() < s.err.Pos())", ["C06"])
mut("parse-ignores-context-error", "parsley/parse.go", "ctxErr != nil && ctxErr.Pos() > err.Pos()", "ctxErr != nil && false", ["C06"])
mut("parse-prefers-lower-context-error", "parsley/parse.go", "ctxErr.Pos() > err.Pos()", "ctxErr.Pos() < err.Pos()", ["C06"])
mut("any-no-context-error", "combinator/any.go", "		ctx.SetError(err)\n\n		return res, cp, nil", "		return res, cp, nil", ["C06"])
mut("context-keeps-first-error", "parsley/context.go", "	if c.err == nil || err.Pos() >= c.err.Pos() {", "	if c.err == nil {", ["C06", "C03"])
mut("returnerror-rewrites-further", "parser/return_error.go", "			if err.Pos() == pos && parsley.IsNotFoundError(err) {", "			if parsley.IsNotFoundError(err) {", ["C06"])
mut("column-off-by-one", "text/file.go", "		Column:   pos - f.lines[i] + 1,", "		Column:   pos - f.lines[i],", ["C06", "C11", "C05"])
mut("end-one-byte-early", "text/reader.go", "	return int(pos)-r.file.offset >= r.file.len\n", "	return int(pos)-r.file.offset >= r.file.len-1\n", ["C04", "C09"])
# ---- literals
mut("integer-no-dot-lookahead", "text/terminal/integer.go",
    "			if _, isFloat := tr.ReadRune(readerPos, '.'); isFloat {\n				return nil, data.EmptyIntSet, parsley.NewError(pos, notFoundErr)\n			}\n", "", ["C08"])
mut("float-exponent-no-sign", "text/terminal/float.go", "(?:[eE][-+]?[0-9]+)?", "(?:[eE][0-9]+)?", ["C08", "C16"])
mut("char-u-accepts-more-hex", "text/terminal/char.go", "{4,4}", "{4,}", ["C08"], "equivalent: the closing quote check rejects the longer match")
mut("duration-no-greek-mu", "text/terminal/time_duration.go", "ns|us|µs|μs|ms", "ns|us|µs|ms", ["C08"])
mut("bool-matchstring", "text/terminal/bool.go", "tr.MatchWord(pos, falseStr)", "tr.MatchString(pos, falseStr)", ["C08"])
mut("string-returns-pos", "text/terminal/string.go", "		return NewStringNode(schema, string(value), pos, readerPos), data.EmptyIntSet, nil", "		return NewStringNode(schema, string(value), pos, readerPos-1), data.EmptyIntSet, nil", ["C08", "C16"])
mut("integer-base-10", "text/terminal/integer.go", "strconv.ParseInt(string(result), 0, 64)", "strconv.ParseInt(string(result), 10, 64)", ["C08", "C05"])
mut("float-32bit", "text/terminal/float.go", "strconv.ParseFloat(string(result), 64)", "strconv.ParseFloat(string(result), 32)", ["C08", "C16"])
# ---- reader
mut("matchword-length-guard", "text/reader.go",
    "	if len(word) > len(r.file.data)-cur {\n		return pos, false\n	}\n\n	for i, b := range []byte(word) {",
    "	if len(word) >= len(r.file.data)-cur {\n		return pos, false\n	}\n\n	for i, b := range []byte(word) {", ["C09", "C08"])
mut("readrune-bound", "text/reader.go", "	cur := int(pos) - r.file.offset\n	if cur >= r.file.len {\n		return pos, false\n	}\n\n	if ch < utf8.RuneSelf {",
    "	cur := int(pos) - r.file.offset\n	if cur > r.file.len {\n		return pos, false\n	}\n\n	if ch < utf8.RuneSelf {", ["C09"])
mut("cache-drops-contextfree-entries", "parsley/result_cache.go",
    "	result, found := rc[parserIndex][pos]\n	if !found {\n		return nil, false\n	}",
    "	result, found := rc[parserIndex][pos]\n	if !found || len(result.LeftRecCtx.Keys()) == 0 {\n		return nil, false\n	}", ["C17", "C03"])
mut("remaining-ignores-offset", "text/reader.go", "	return r.file.len - (int(pos) - r.file.offset)", "	return r.file.len - (int(pos) - 1)", ["C09", "C12"])
mut("iseof-ignores-offset", "text/reader.go", "	return int(pos)-r.file.offset >= r.file.len\n", "	return int(pos)-1 >= r.file.len\n", ["C09", "C12"])
mut("regexp-cache-short-key", "text/reader.go", "	rc, ok := r.regexpCache[expr]\n", "	rc, ok := r.regexpCache[expr[:1]]\n", ["C09", "C08", "C12"])
mut("skipws-cr-is-space", "text/reader.go", "r.file.data[cur] == '\\t' || r.file.data[cur] == '\\n'", "r.file.data[cur] == '\\t' || r.file.data[cur] == '\\r' || r.file.data[cur] == '\\n'", ["C09", "C10"])
# ---- trimming
mut("forcenl-inverted", "text/reader.go", "	case wsMode == WsSpacesForceNl && nlPos == 0:", "	case wsMode == WsSpacesForceNl && nlPos != 0:", ["C10", "C09"])
mut("lefttrim-ignores-ws-error", "text/trim.go", "		if wsErr != nil {\n			return nil, data.EmptyIntSet, wsErr\n		}\n\n		return res, cp, nil", "		return res, cp, nil", ["C10", "C16"])
mut("righttrim-does-not-move-end", "text/trim.go", "				pos, wsErr = tr.SkipWhitespaces(pos, wsMode)\n				return pos", "				_, wsErr = tr.SkipWhitespaces(pos, wsMode)\n				return pos", ["C10", "C05"])
mut("wsspaces-error-at-run-start", "text/reader.go", "parsley.NewError(nlPos, wsSpacesErr)", "parsley.NewError(pos, wsSpacesErr)", ["C10", "C09"])
# ---- positions
mut("fileset-position-ge", "parsley/file_set.go", "	if pos == 0 || int(pos) >= fs.pos {", "	if pos == 0 || int(pos) > fs.pos {", ["C11"])
mut("fileset-no-separator", "parsley/file_set.go", "	fs.pos = fs.pos + f.Len() + 1", "	fs.pos = fs.pos + f.Len()", ["C11", "C12"])
mut("setlines-offset", "text/file.go", "			f.lines = append(f.lines, offset+1)", "			f.lines = append(f.lines, offset)", ["C11", "C06"])
mut("file-position-gt-len", "text/file.go", "	if pos > f.len {\n		return parsley.NilPosition", "	if pos >= f.len {\n		return parsley.NilPosition", ["C11", "C06"])
# ---- tree passes
mut("walk-preorder", "parsley/walk.go",
    "func Walk(node Node, f func(n Node) bool) bool {\n	switch n := node.(type) {",
    "func Walk(node Node, f func(n Node) bool) bool {\n	if _, isNT := node.(NonTerminalNode); isNT {\n		if f(node) {\n			return true\n		}\n		for _, child := range node.(NonTerminalNode).Children() {\n			if Walk(child, f) {\n				return true\n			}\n		}\n		return false\n	}\n	switch n := node.(type) {", ["C13"])
mut("walk-continues-after-true", "parsley/walk.go", "			if Walk(child, f) {\n				return true\n			}", "			Walk(child, f)", ["C13"])
mut("staticcheck-keeps-walking", "parsley/static_check.go", "				staticCheckErr = err\n				return true", "				staticCheckErr = err\n				return false", ["C13"])
mut("staticcheck-records-schema-on-error", "ast/nonterminal_node.go", "			schema, err := i.StaticCheck(userCtx, n)\n			if err != nil {\n				return err\n			}\n			n.schema = schema", "			schema, err := i.StaticCheck(userCtx, n)\n			n.schema = schema\n			if err != nil {\n				return err\n			}", ["C13"])
mut("transform-skips-children", "ast/nonterminal_node.go", "	for i, child := range n.children {\n		if n.children[i], err = parsley.Transform(userCtx, child); err != nil {", "	for i, child := range n.children[:len(n.children)/2] {\n		if n.children[i], err = parsley.Transform(userCtx, child); err != nil {", ["C13"])
mut("select-off-by-one", "ast/interpreter/interpreter.go", "	return parsley.EvaluateNode(userCtx, nodes[s.i])", "	return parsley.EvaluateNode(userCtx, nodes[(s.i+1)%len(nodes)])", ["C13", "C05"])
# ---- concurrency
mut("parser-index-not-atomic", "combinator/memoize.go", "	parserIndex := int(atomic.AddInt32(&nextParserIndex, 1))", "	nextParserIndex++\n	parserIndex := int(nextParserIndex)\n	_ = atomic.AddInt32", ["C14"])
mut("notfound-global-target", "parsley/error.go", "	var notFoundErr NotFoundError\n	return errors.As(err, &notFoundErr)", "	return errors.As(err, &sharedNotFoundErr)\n}\n\nvar sharedNotFoundErr NotFoundError\n\nfunc unusedNotFound() bool {\n	return false", ["C14"])
# ---- data
mut("intmap-inc-no-clone", "data/intmap.go", "	i2 := i.clone()\n	if _, ok := i2.data[val]; !ok {", "	i2 := i\n	if _, ok := i2.data[val]; !ok {", ["C15", "C01"])
mut("intset-union-appends-into-receiver", "data/intset.go", "	i3 := IntSet{make([]int, 0, len(i.data)+len(i2.data))}", "	i3 := IntSet{i.data[:0:cap(i.data)]}", ["C15", "C01"])
mut("intset-insert-shares-slice", "data/intset.go", "	i2 := IntSet{make([]int, len(i.data), len(i.data)+1)}\n	copy(i2.data, i.data)\n", "	i2 := i\n", ["C15"])
mut("intmap-filter-keeps-all", "data/intmap.go", "		if v, ok := i.data[key]; ok {\n			i2.data[key] = v\n		}", "		if v, ok := i.data[key]; ok || true {\n			i2.data[key] = v\n		}", ["C15"])
# ---- json example
mut("array-interpreter-step-1", "ast/interpreter/interpreter.go", "		res := make([]interface{}, (len(nodes)+1)/2)\n		for i := 0; i < len(nodes); i += 2 {\n			value, err := parsley.EvaluateNode(userCtx, nodes[i])",
    "		res := make([]interface{}, (len(nodes)+1)/2)\n		for i := 0; i < (len(nodes)+1)/2; i += 1 {\n			value, err := parsley.EvaluateNode(userCtx, nodes[i])", ["C16"])
mut("object-first-duplicate-wins", "ast/interpreter/interpreter.go", "			res[key.(string)] = value", "			if _, dup := res[key.(string)]; !dup {\n				res[key.(string)] = value\n			}", ["C16"])
mut("json-choice-integer-before-float", "examples/json/json/parser.go", "		terminal.Float(\"number\"),\n		terminal.Integer(\"integer\"),", "		terminal.Integer(\"integer\"),\n		terminal.Float(\"number\"),", ["C16"], "equivalent: Integer refuses the prefix of a float")


def run(cmd, cwd, env=ENV, timeout=1800):
    p = subprocess.run(cmd, cwd=cwd, env=env, stdout=subprocess.PIPE, stderr=subprocess.STDOUT, text=True, timeout=timeout)
    return p.returncode, p.stdout


def one(m, idx):
    wt = f"/tmp/sens-{os.getpid()}-{idx}"
    res = dict(name=m["name"], file=m["file"], note=m["note"], checks={})
    subprocess.run(["git", "-C", "/repo", "worktree", "add", "-q", "--detach", wt, "HEAD"], check=True)
    try:
        path = os.path.join(wt, m["file"])
        src = open(path).read()
        if src.count(m["old"]) != 1:
            res["error"] = f"pattern occurs {src.count(m['old'])} times"
            return res
        open(path, "w").write(src.replace(m["old"], m["new"]))
        rc, out = run(["go", "build", "./..."], wt)
        if rc != 0:
            res["error"] = "does not build: " + out[-400:]
            return res
        rc, out = run(["go", "test", "-vet=off", "-count=1", "./..."], wt)
        res["suite"] = "noticed" if rc != 0 else "silent"
        evd = f"/tmp/sens-ev-{os.getpid()}-{idx}"
        for c in m["checks"]:
            env = dict(ENV, VERIF_REPO=wt, VERIF_EVIDENCE_DIR=evd)
            rc, out = run([os.path.join(ROOT, "check"), c, "--tier", "quick"], ROOT, env)
            first = ""
            for line in out.splitlines():
                if "found a violation" in line or "data race" in line or "fatal" in line:
                    i = out.splitlines().index(line)
                    first = " ".join(out.splitlines()[i + 1:i + 3])[:240]
                    break
            res["checks"][c] = dict(rc=rc, detail=first)
        shutil.rmtree(evd, ignore_errors=True)
    finally:
        subprocess.run(["git", "-C", "/repo", "worktree", "remove", "--force", wt])
    return res


def main():
    sel = [m for m in M if not sys.argv[1:] or any(a in m["name"] for a in sys.argv[1:])]
    results = []
    with cf.ThreadPoolExecutor(max_workers=4) as ex:
        futs = {ex.submit(one, m, i): m for i, m in enumerate(sel)}
        for f in cf.as_completed(futs):
            r = f.result()
            results.append(r)
            print(r["name"], r.get("suite"), {k: v["rc"] for k, v in r["checks"].items()}, r.get("error", ""), flush=True)
    results.sort(key=lambda r: [m["name"] for m in M].index(r["name"]))
    os.makedirs(os.path.join(ROOT, "sensitivity"), exist_ok=True)
    outp = os.path.join(ROOT, "sensitivity", "results.json")
    old = []
    if sys.argv[1:] and os.path.exists(outp):
        old = [r for r in json.load(open(outp)) if r["name"] not in {x["name"] for x in results}]
    allr = old + results
    allr.sort(key=lambda r: [m["name"] for m in M].index(r["name"]) if r["name"] in [m["name"] for m in M] else 999)
    json.dump(allr, open(outp, "w"), indent=1)
    with open(os.path.join(ROOT, "sensitivity", "results.md"), "w") as f:
        f.write("| mutant | file | repository suite | checks (quick tier; 1 = VIOLATION, 0 = silent) | note |\n|---|---|---|---|---|\n")
        for r in allr:
            cs = ", ".join(f"{k}={v['rc']}" for k, v in r["checks"].items())
            f.write(f"| {r['name']} | {r['file']} | {r.get('suite', r.get('error', ''))} | {cs} | {r['note']} |\n")


if __name__ == "__main__":
    main()
