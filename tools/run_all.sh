#!/bin/sh
# Runs every check of MANIFEST.json in the given tier (default quick) and prints one line per check.
tier=${1:-quick}
cd "$(dirname "$0")/.."
rc_all=0
for id in C01 C02 C03 C04 C05 C06 C07 C08 C09 C10 C11 C12 C13 C14 C15 C16 C17; do
  out=$(./check $id --tier $tier 2>&1); rc=$?
  echo "$id rc=$rc $(echo "$out" | grep "$id $tier seed" | tail -1)"
  echo "$out" | grep "^VIOLATION\|^INCONCLUSIVE\|^KNOWN-FINDING" | cut -c1-200
  [ $rc -ne 0 ] && rc_all=1
done
exit $rc_all
