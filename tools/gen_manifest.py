#!/usr/bin/env python3
"""Generates /verif/MANIFEST.json from props.py (the driver's own table)."""
import json, os, sys

ROOT = os.path.dirname(os.path.dirname(os.path.abspath(__file__)))
sys.path.insert(0, ROOT)
from props import PROPS  # noqa: E402

ALL = [f"C{i:02d}" for i in range(1, 18)]

manifest = {
    "version": 1,
    "setup_cmd": "cd /verif && ./tools/setup.sh",
    "hooks": {
        "guard": "verif",
        "enable": "no source hooks exist: every observation is made by wrapper parsers (parsley.Parser is an interface) placed around and inside the library's combinators by the harness; the harness module builds /repo's working tree through a replace directive (go test -c in /verif/harness)",
        "baseline_off_cmd": "cd /repo && GOFLAGS=-mod=mod GOPROXY=off GOSUMDB=off go test -json -vet=off -count=1 -timeout 25m ./...",
        "source_commits": [],
        "add_only": True,
    },
    "engines": [
        {
            "name": "rapid-harness",
            "path": "/verif/harness",
            "serves_properties": sorted(PROPS),
            "kind_free_text": "Go test binary (pgregory.net/rapid v1.3.0 generators, state machines and shrinking; go test -fuzz targets for the byte-level properties; -race build for C14) driven by /verif/check, which shards by seed, merges the measured coverage into evidence/<id>.json and turns failures into replay files",
        }
    ],
    "checks": [],
    "notes": "All checks: ./check <ID> [--tier quick|thorough]; VERIF_SEED selects the rapid seeds (shard seed = VERIF_SEED*1000+shard+1). exit 0 = held, 1 = VIOLATION line printed, 2 = inconclusive (build failure / timeout). Genuine defects found while building the checks were repaired in /repo by 'fix:' commits and are listed in known_findings.json together with the one recorded known finding (C07 KF-1).",
    "not_applicable": [],
}

for pid in ALL:
    if pid not in PROPS:
        manifest["not_applicable"].append({"property_id": pid, "reason": "check not built yet in this revision (no technical obstacle; see DESIGN.md section 4)"})
        continue
    c = dict(PROPS[pid])
    if c.get("fuzz", {}).get("rapid"):
        c["technique"] += "; thorough tier adds coverage-guided go fuzzing of the same generators and oracle (rapid.MakeFuzz)"
        c["level_text"] += " The thorough tier adds a coverage-guided stage: go test -fuzz supplies the bytes from which rapid draws the case, so coverage feedback steers the same generators against the same oracle."
    manifest["checks"].append({
        "property_id": pid,
        "quick_cmd": f"./check {pid} --tier quick",
        "thorough_cmd": f"./check {pid} --tier thorough",
        "evidence_file": f"/verif/evidence/{pid}.json",
        "replay_cmd_template": f"./check {pid} --replay {{path}}",
        "engine": "rapid-harness",
        "level_claimed": {"category": "exploration", "text": c["level_text"], "design_ref": c["design_ref"]},
        "level_note": c["level_note"],
        "technique": c["technique"],
    })

# (an empty list says: every listed property is claimed)

with open(os.path.join(ROOT, "MANIFEST.json"), "w") as f:
    json.dump(manifest, f, indent=1, ensure_ascii=False)
    f.write("\n")
print("wrote MANIFEST.json with", len(manifest["checks"]), "checks")
