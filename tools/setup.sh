#!/bin/sh
# Run once after a fresh restore, offline: make sure the harness module resolves and compiles
# against /repo from files on disk only (module cache + /repo); nothing is downloaded.
set -e
cd "$(dirname "$0")/../harness"
export GOFLAGS=-mod=mod GOPROXY=off GOSUMDB=off GOTOOLCHAIN=local
if [ ! -f go.sum ]; then cat /repo/go.sum ../tools/rapid.sum > go.sum; fi
mkdir -p ../.build/setup ../evidence
go test -c -vet=off -o ../.build/setup/harness.test .
echo "setup ok: harness builds against /repo"
