#!/usr/bin/env python3
"""Refreshes the result tables of DESIGN.md sections 11 and 12 from sensitivity/results.json and
seeded/*/meta.json (between the <!-- table:... --> markers)."""
import json, os, re

ROOT = os.path.dirname(os.path.dirname(os.path.abspath(__file__)))


def esc(s):
    return str(s).replace("|", "\\|")


def main():
    rs = json.load(open(os.path.join(ROOT, "sensitivity", "results.json")))
    rows = ["| mutant | file | repository suite | quick tier of the checks | note |", "|---|---|---|---|---|"]
    for r in rs:
        cs = ", ".join(f"{k}: {'VIOLATION' if v['rc'] == 1 else ('silent' if v['rc'] == 0 else 'inconclusive')}" for k, v in r["checks"].items())
        rows.append(f"| {r['name']} | {r['file']} | {r.get('suite', r.get('error', ''))} | {cs} | {esc(r['note'])} |")
    sens = "\n".join(rows)
    rows = ["| change | site | needs, to manifest | caught by (quick tier) | history |", "|---|---|---|---|---|"]
    for name in sorted(os.listdir(os.path.join(ROOT, "seeded"))):
        mp = os.path.join(ROOT, "seeded", name, "meta.json")
        if not os.path.exists(mp):
            continue
        m = json.load(open(mp))
        rows.append(f"| {name} | {esc(m.get('site', ''))} | {esc(m.get('needs_to_manifest', ''))} | {', '.join(m['caught_by'])} | {esc(m.get('history', ''))} |")
    seeds = "\n".join(rows)
    p = os.path.join(ROOT, "DESIGN.md")
    s = open(p).read()
    for tag, body in (("sensitivity", sens), ("seeded", seeds)):
        s = re.sub(rf"<!-- table:{tag} -->.*?<!-- /table:{tag} -->", lambda m: f"<!-- table:{tag} -->\n{body}\n<!-- /table:{tag} -->", s, flags=re.S)
    open(p, "w").write(s)


if __name__ == "__main__":
    main()
