#!/usr/bin/env python3
"""How robust is the detection of the stored seeded changes against the choice of VERIF_SEED?

For every seeded/<id>-<label>/ the stored patch is applied in a scratch worktree of /repo (under
/tmp, removed afterwards) and the quick tier of the property's own check is run against it at the
given seeds (default 2 3). Results go to seeded/<name>/meta.json under "other_seeds"
({"<seed>": rc}) and a summary is printed; nothing else in meta.json is touched.

  tools/seed_seeds.py [--seeds 2,3,5] [--jobs 4] [name-substring ...]
"""
import concurrent.futures as cf
import json, os, subprocess, sys

ROOT = os.path.dirname(os.path.dirname(os.path.abspath(__file__)))


def one(name, seeds):
    d = os.path.join(ROOT, "seeded", name)
    pid = name.split("-")[0]
    wt = f"/tmp/seedseeds-{name}-{os.getpid()}"
    subprocess.run(["git", "-C", "/repo", "worktree", "add", "-q", "--detach", wt, "HEAD"], check=True)
    out = {}
    try:
        r = subprocess.run(["git", "-C", wt, "apply", os.path.join(d, "patch.diff")], capture_output=True, text=True)
        if r.returncode != 0:
            return name, {"apply": r.stderr.strip()[:200]}
        for s in seeds:
            env = dict(os.environ, VERIF_REPO=wt, VERIF_SEED=str(s), VERIF_EVIDENCE_DIR=f"/tmp/verif-alt-evidence-{os.getpid()}")
            r = subprocess.run([os.path.join(ROOT, "check"), pid, "--tier", "quick"], env=env, capture_output=True, text=True, cwd=ROOT)
            out[str(s)] = r.returncode
    finally:
        subprocess.run(["git", "-C", "/repo", "worktree", "remove", "--force", wt], capture_output=True)
    mp = os.path.join(d, "meta.json")
    m = json.load(open(mp))
    prev = m.get("other_seeds", {})
    prev.update(out)
    m["other_seeds"] = prev
    json.dump(m, open(mp, "w"), indent=1)
    return name, out


def main():
    args = sys.argv[1:]
    seeds, jobs, subs = [2, 3], 4, []
    i = 0
    while i < len(args):
        if args[i] == "--seeds":
            seeds = [int(x) for x in args[i + 1].split(",")]
            i += 2
        elif args[i] == "--jobs":
            jobs = int(args[i + 1])
            i += 2
        else:
            subs.append(args[i])
            i += 1
    names = [n for n in sorted(os.listdir(os.path.join(ROOT, "seeded")))
             if os.path.isdir(os.path.join(ROOT, "seeded", n)) and (not subs or any(s in n for s in subs))]
    missed = []
    with cf.ThreadPoolExecutor(max_workers=jobs) as ex:
        for name, out in ex.map(lambda n: one(n, seeds), names):
            bad = [s for s, rc in out.items() if rc != 1]
            print(name, out, "" if not bad else "<-- not caught at seed(s) " + ",".join(bad), flush=True)
            if bad:
                missed.append((name, out))
    print(f"{len(names)} changes, {len(missed)} not caught by their own check at every one of the seeds {seeds}")
    for name, out in missed:
        print("  ", name, out)


if __name__ == "__main__":
    main()
