#!/usr/bin/env python3
"""Re-run the checks against the stored seeded changes (seeded/<id>-<A|B>/): for each one a
scratch worktree of /repo is created under /tmp, the stored patch and demonstration are put in
place, tools/seed_eval.py confirms the change again (demo passes without it, suite passes with
it, demo fails with it) and runs the given checks (default: the property's own check), and the
worktree is removed.

  tools/seed_recheck.py [--all-checks] [name-substring ...]
"""
import json, os, shutil, subprocess, sys

ROOT = os.path.dirname(os.path.dirname(os.path.abspath(__file__)))


def main():
    args = [a for a in sys.argv[1:] if not a.startswith("--")]
    allc = "--all-checks" in sys.argv
    rc_all = 0
    for name in sorted(os.listdir(os.path.join(ROOT, "seeded"))):
        d = os.path.join(ROOT, "seeded", name)
        if not os.path.isdir(d) or (args and not any(a in name for a in args)):
            continue
        pid, label = name.split("-")
        old = json.load(open(os.path.join(d, "meta.json")))
        wt = f"/tmp/seedre-{name}-{os.getpid()}"
        subprocess.run(["git", "-C", "/repo", "worktree", "add", "-q", "--detach", wt, "HEAD"], check=True)
        try:
            shutil.copy(os.path.join(d, "patch.diff"), os.path.join(wt, f"seed{label}.diff"))
            dd = os.path.join(wt, f"seeddemo_{label.lower()}")
            os.makedirs(dd)
            shutil.copy(os.path.join(d, "demo_test.go"), os.path.join(dd, "demo_test.go"))
            if os.path.exists(os.path.join(d, "SEED_NOTES.md")):
                shutil.copy(os.path.join(d, "SEED_NOTES.md"), wt)
            checks = [] if allc else [pid]
            subprocess.run([os.path.join(ROOT, "tools", "seed_eval.py"), wt, label, pid] + checks)
        finally:
            subprocess.run(["git", "-C", "/repo", "worktree", "remove", "--force", wt])
        new = json.load(open(os.path.join(d, "meta.json")))
        for k in ("site", "needs_to_manifest", "history"):
            if k in old:
                new[k] = old[k]
        if not allc:
            # keep the full table of the last all-checks run, refresh the own check
            merged = dict(old.get("checks", {}))
            merged.update(new.get("checks", {}))
            new["checks"] = merged
            new["caught_by"] = sorted(c for c, v in merged.items() if v["rc"] == 1)
        new.pop("worktree", None)
        new["ran"] = [r.replace(wt, "<scratch worktree>") for r in new["ran"]]
        json.dump(new, open(os.path.join(d, "meta.json"), "w"), indent=1)
        if pid not in new["caught_by"]:
            rc_all = 1
            print("NOT CAUGHT by its own check:", name)
    return rc_all


if __name__ == "__main__":
    sys.exit(main())
