# Single source of truth for the per-property configuration of the driver (./check) and of
# MANIFEST.json (tools/gen_manifest.py).  Case counts are per shard.
#
# quick / thorough: (shards, rapid checks per shard, go test timeout in seconds)

PROPS = {
    "C01": dict(
        test="TestC01",
        quick=(4, 5000, 300), thorough=(16, 60000, 3000),
        technique="property-based testing (rapid): generated stratified grammars x inputs against a least-fixpoint reference semantics (span sets, tree sets, per-tree validity)",
        rule="case = random stratified grammar (<=3 rules quick / <=4 thorough, recursion skeleton drawn first: direct, hidden, indirect, right/centre) + input (uniform, sampled sentence, mutated sentence); every rule is parsed at every offset and compared with the reference (end offsets both ways; tree sets both ways when finitely many; validity of every returned tree). Non-trivial = the grammar is left-recursive and some left-recursive rule derives something at some offset; distinct = distinct (grammar,input,memo flags) by 64-bit hash of the case.",
        level_text="Exploration: tens of thousands (quick) to about a million (thorough) generated grammar/input pairs are compared with an independent denotational reference, all rules at all offsets; failures shrink to a minimal grammar and input. Testing cannot prove completeness for all grammars; the generator is biased to the shapes where the listed defects live and its class histogram is in the evidence.",
        level_note="Trusted base: the reference semantics in harness/refsem.go (written from the combinator documentation: union, first match, longest path), the stratified generator, rapid v1.3.0, the Go toolchain. Grammars are over single-byte terminals, inputs <= 9 bytes; unboundedly ambiguous grammars are only checked for end offsets and tree validity; cases beyond the work budget (20000 probe calls / 200 alternatives) are discarded and counted.",
        design_ref="DESIGN.md 4 (C01), 3.1-3.3",
    ),
}

ORDER = sorted(PROPS)
