package harness

import (
	"fmt"
	"strings"
	"testing"
	"unicode/utf8"

	"github.com/opsidian/parsley/combinator"
	"github.com/opsidian/parsley/data"
	"github.com/opsidian/parsley/parsley"
	"pgregory.net/rapid"
)

// C02: every memoized grammar terminates with bounded re-entry per position. The decided
// invariant is the activation bound (depth of simultaneously active evaluations of one
// memoized rule at one position <= Remaining+2), observed by a probe inside each rule's
// Memoize on every evaluation, plus survival of the process.
func checkC02(ci interface{}, st *Stats) error {
	c := ci.(*GCase)
	g, in := c.G, c.In
	g.number()
	lr := classifyGrammar(g, st)
	if c.Wide != 0 {
		if c.Wide < 0x80 || !utf8.ValidRune(rune(c.Wide)) {
			return Discard{"not a multi-byte rune"}
		}
		// the model's terminal 'b' is a multi-byte rune for the library; the bound is about bytes
		in = widen(in, rune(c.Wide)).Lib
		st.Class("terminal b is a multi-byte rune")
	}
	probe := NewProbe()
	probe.InLen = len(normCRLF([]byte(in)))
	_, _, probe.Base = NewCtxAt(in, c.PreLen)
	long := len(c.In) > 40
	if long {
		// long inputs (only drawn for small unambiguous templates): the work is quadratic
		probe.Budget = 40000000
		st.Class("input of 250-700 bytes")
	}
	b := Build(g, BuildOpts{MemoRules: c.memoRules(), Probe: probe, Wide: rune(c.Wide)})
	for nt := range g.Rules {
		for i := 0; i <= len(in); i++ {
			if long && (i > 0 || nt > 0) {
				continue // every offset of a long input would cost n^3
			}
			ctx, f, _ := NewCtxAt(in, c.PreLen)
			_, _, berr := parseGuarded(b.NT[nt], ctx, data.EmptyIntMap, f.Pos(i))
			if berr != nil {
				return fmt.Errorf("parsing N%d at offset %d: %v", nt, i, berr)
			}
		}
	}
	// the same through the public entry point
	ctx, _, _ := NewCtxAt(in, c.PreLen)
	var perr error
	func() {
		defer func() {
			if r := recover(); r != nil {
				if be, ok := r.(boundExceeded); ok {
					perr = fmt.Errorf("parsley.Parse(Sentence(N0)): %s", be.msg)
					return
				}
				panic(r)
			}
		}()
		_, _ = parsley.Parse(ctx, combinator.Sentence(b.NT[0]))
	}()
	if perr != nil {
		return perr
	}
	// ... and with transformation and static checking enabled on the context (they run after the
	// parse; the bound does not depend on them)
	ctxT, _, _ := NewCtxAt(in, c.PreLen)
	ctxT.EnableTransformation()
	ctxT.EnableStaticCheck()
	func() {
		defer func() {
			if r := recover(); r != nil {
				if be, ok := r.(boundExceeded); ok {
					perr = fmt.Errorf("parsley.Parse(Sentence(N0)) with transformation and static check enabled: %s", be.msg)
					return
				}
				panic(r)
			}
		}()
		_, _ = parsley.Parse(ctxT, combinator.Sentence(b.NT[0]))
	}()
	if perr != nil {
		return perr
	}
	// The same parser graph on a second, shorter input with a new file, reader and context: the
	// bound belongs to the parse, not to the grammar object.
	if !long && len(in) >= 2 {
		in2 := widen(c.In[:len(c.In)/2], rune(c.Wide)).Lib
		probe.InLen = len(normCRLF([]byte(in2)))
		probe.Base = 1
		for nt := range g.Rules {
			ctx2, f2 := NewCtx(in2)
			if _, _, berr := parseGuarded(b.NT[nt], ctx2, data.EmptyIntMap, f2.Pos(0)); berr != nil {
				return fmt.Errorf("the same grammar object on a second, shorter input %q, N%d at offset 0: %v", in2, nt, berr)
			}
		}
	}
	if probe.MaxDepth >= 2 {
		st.NonTrivial()
		st.Class("re-entered (depth>=2)")
	}
	switch {
	case probe.MaxSlack == 0:
		st.Class("bound reached exactly (depth = remaining+2)")
	case probe.MaxSlack == -1:
		st.Class("depth = remaining+1")
	}
	if hasKind(g, KLTrim, KRTrim) {
		st.Class("grammar with LeftTrim/RightTrim")
	}
	if c.PreLen > 0 {
		st.Class("file placed after another file")
	}
	if lr.Hidden && len(in) > 0 {
		st.Class("hidden-lr with non-empty input")
	}
	if probe.MaxNest > 100 {
		st.Class("probe nesting > 100")
	}
	return nil
}

func init() {
	register(&Property{
		ID:      "C02",
		NewCase: func() interface{} { return &GCase{} },
		Gen: func(t *rapid.T) interface{} {
			pre := 0
			if rapid.IntRange(0, 3).Draw(t, "placed") == 0 {
				pre = rapid.IntRange(1, 300).Draw(t, "preLen")
				if rapid.IntRange(0, 9).Draw(t, "hugepre") == 4 {
					pre = rapid.SampledFrom([]int{65533, 65536, 70000}).Draw(t, "hugeLen")
				}
			}
			if rapid.IntRange(0, 31).Draw(t, "long") == 13 { // (rapid favours the ends of a range)
				return genLongC02(t, pre)
			}
			o := genOptsC01()
			o.SkWeights = []int{2, 2, 2, 4, 4, 4, 3, 1, 0, 5, 6, 7}
			if rapid.IntRange(0, 4).Draw(t, "extramemo") == 0 {
				o.ExtraMemo = 4
			}
			if rapid.IntRange(0, 3).Draw(t, "trims") == 0 {
				// counters travel through LeftTrim/RightTrim to another position
				o.Trims = true
				o.Alphabet = "ab \n"
				o.MaxInput += 2
			}
			o.Single = rapid.IntRange(0, 5).Draw(t, "single") == 0
			o.RuleNames = rapid.IntRange(0, 2).Draw(t, "rulenames") == 1
			// termination needs no meaning: a third of the grammars also recurse where a combinator
			// tests for failure (P -> P+ b | a, a left-recursive first Choice alternative, ...)
			o.Unstratified = rapid.IntRange(0, 2).Draw(t, "unstratified") == 0
			o.Suppress = rapid.IntRange(0, 2).Draw(t, "suppress") == 0 // SuppressError around anything, recursive references included
			g := GenGrammar(t, o)
			if o.Trims && rapid.IntRange(0, 2).Draw(t, "rtrimrepeat") == 0 {
				// one consuming rule is reached at one position by a right trim that may reject the
				// whitespace behind it and by a repetition over another right trim of it
				nl := nullableRules(g)
				var cons []int
				for i, isNull := range nl {
					if !isNull {
						cons = append(cons, i)
					}
				}
				if len(cons) > 0 {
					k := cons[rapid.IntRange(0, len(cons)-1).Draw(t, "rtrimrule")]
					first := &Expr{K: KSeqOf, Kids: []*Expr{{K: KRTrim, Mode: rapid.SampledFrom([]int{0, 0, 1, 3}).Draw(t, "rtrimm1"), Kids: []*Expr{rf(k)}}, tm('b')}}
					rep := &Expr{K: KMany, Kids: []*Expr{{K: KRTrim, Mode: rapid.SampledFrom([]int{2, 2, 1}).Draw(t, "rtrimm2"), Kids: []*Expr{rf(k)}}}}
					kind := KAny
					if rapid.Bool().Draw(t, "rtrimchoice") {
						kind = KChoice
					}
					g.Rules[0] = &Expr{K: kind, Kids: []*Expr{first, rep, g.Rules[0]}}
					g.number()
				}
			}
			wideRune := 0
			if rapid.IntRange(0, 5).Draw(t, "wide") == 0 {
				wideRune = int(rapid.SampledFrom([]rune{0x80, 0xe9, 0xff, 0x100, 0x7ff, 0x800, 0x20ac, 0xfffd, 0xffff, 0x10000, 0x1f600}).Draw(t, "wideRune"))
			}
			return &GCase{G: g, In: GenInput(t, g, o), MemoAll: rapid.Bool().Draw(t, "memoAll"), PreLen: pre, Wide: wideRune}
		},
		Check: checkC02,
	})
}

func TestC02(t *testing.T) { RunProperty(t, "C02") }

// genLongC02: a small unambiguous left-recursive template on an input of several hundred bytes
// (the re-entry bound grows with the remaining input; counters must keep counting that far).
func genLongC02(t *rapid.T, pre int) interface{} {
	sizes := []int{250, 254, 255, 256, 257, 300}
	if thorough() {
		sizes = append(sizes, 400, 511, 513, 700)
	}
	n := rapid.SampledFrom(sizes).Draw(t, "length")
	var g *Grammar
	var in string
	switch rapid.IntRange(0, 3).Draw(t, "template") {
	case 0: // P -> P b | a
		g = &Grammar{Rules: []*Expr{ex(KAny, ex(KSeqOf, rf(0), tm('b')), tm('a'))}, Layer: []int{0}}
		in = "a" + strings.Repeat("b", n-1)
	case 1: // P -> a | P b   (alternatives swapped)
		g = &Grammar{Rules: []*Expr{ex(KAny, tm('a'), ex(KSeqOf, rf(0), tm('b')))}, Layer: []int{0}}
		in = "a" + strings.Repeat("b", n-1)
	case 2: // H -> x? H b | a
		g = &Grammar{Rules: []*Expr{ex(KAny, ex(KSeqOf, ex(KOpt, tm('x')), rf(0), tm('b')), tm('a'))}, Layer: []int{0}}
		in = rapid.SampledFrom([]string{"a", "xa"}).Draw(t, "head") + strings.Repeat("b", n-2)
	default: // A -> B x | a ; B -> A y | b
		g = &Grammar{Rules: []*Expr{ex(KAny, ex(KSeqOf, rf(1), tm('x')), tm('a')), ex(KAny, ex(KSeqOf, rf(0), tm('y')), tm('b'))}, Layer: []int{0, 0}}
		in = "a" + strings.Repeat("yx", n/2)
	}
	if rapid.IntRange(0, 3).Draw(t, "truncate") == 0 {
		in = in[:len(in)-1] + "?"
	}
	g.number()
	return &GCase{G: g, In: in, MemoAll: true, PreLen: pre}
}
