package harness

import (
	"fmt"
	"testing"

	"github.com/opsidian/parsley/combinator"
	"github.com/opsidian/parsley/data"
	"github.com/opsidian/parsley/parsley"
	"pgregory.net/rapid"
)

// C02: every memoized grammar terminates with bounded re-entry per position. The decided
// invariant is the activation bound (depth of simultaneously active evaluations of one
// memoized rule at one position <= Remaining+2), observed by a probe inside each rule's
// Memoize on every evaluation, plus survival of the process.
func checkC02(ci interface{}, st *Stats) error {
	c := ci.(*GCase)
	g, in := c.G, c.In
	g.number()
	lr := classifyGrammar(g, st)
	probe := NewProbe()
	probe.InLen = len(in)
	b := Build(g, BuildOpts{MemoRules: c.memoRules(), Probe: probe})
	for nt := range g.Rules {
		for i := 0; i <= len(in); i++ {
			ctx, f := NewCtx(in)
			_, _, berr := parseGuarded(b.NT[nt], ctx, data.EmptyIntMap, f.Pos(i))
			if berr != nil {
				return fmt.Errorf("parsing N%d at offset %d: %v", nt, i, berr)
			}
		}
	}
	// the same through the public entry point
	ctx, _ := NewCtx(in)
	var perr error
	func() {
		defer func() {
			if r := recover(); r != nil {
				if be, ok := r.(boundExceeded); ok {
					perr = fmt.Errorf("parsley.Parse(Sentence(N0)): %s", be.msg)
					return
				}
				panic(r)
			}
		}()
		_, _ = parsley.Parse(ctx, combinator.Sentence(b.NT[0]))
	}()
	if perr != nil {
		return perr
	}
	if probe.MaxDepth >= 2 {
		st.NonTrivial()
		st.Class("re-entered (depth>=2)")
	}
	switch {
	case probe.MaxSlack == 0:
		st.Class("bound reached exactly (depth = remaining+2)")
	case probe.MaxSlack == -1:
		st.Class("depth = remaining+1")
	}
	if lr.Hidden && len(in) > 0 {
		st.Class("hidden-lr with non-empty input")
	}
	if probe.MaxNest > 100 {
		st.Class("probe nesting > 100")
	}
	return nil
}

func init() {
	register(&Property{
		ID:      "C02",
		NewCase: func() interface{} { return &GCase{} },
		Gen: func(t *rapid.T) interface{} {
			o := genOptsC01()
			o.SkWeights = []int{2, 2, 2, 4, 4, 4, 3, 1, 0, 5, 6}
			if rapid.IntRange(0, 4).Draw(t, "extramemo") == 0 {
				o.ExtraMemo = 4
			}
			g := GenGrammar(t, o)
			return &GCase{G: g, In: GenInput(t, g, o), MemoAll: rapid.Bool().Draw(t, "memoAll")}
		},
		Check: checkC02,
	})
}

func TestC02(t *testing.T) { RunProperty(t, "C02") }
