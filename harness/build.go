package harness

import (
	"fmt"
	"strings"
	"unicode/utf8"

	"github.com/opsidian/parsley/ast"
	"github.com/opsidian/parsley/combinator"
	"github.com/opsidian/parsley/data"
	"github.com/opsidian/parsley/parser"
	"github.com/opsidian/parsley/parsley"
	"github.com/opsidian/parsley/text"
	"github.com/opsidian/parsley/text/terminal"
)

// Probe collects what the wrapper parsers observe during one or more parses.
type Probe struct {
	// activation tracking of memoized rules: (rule, pos) -> current / maximal depth
	active    map[[2]int]int
	maxActive map[[2]int]int
	MaxDepth  int // maximum over maxActive
	MaxSlack  int // maximum of depth - (Remaining+2); <= 0 when the bound holds
	Bound     bool
	// evaluations of the body under a Memoize wrapper per (key, pos); key = exprID or -1-rule
	evals map[[2]int]int
	// requests to a Memoize wrapper per (key, pos)
	asks map[[2]int]int
	// TrackAnswers (left-recursion-free grammars only: there an answer cannot depend on the calling
	// context): what every Memoize wrapper returned per position - result rendering and error -, and
	// the first disagreement between two answers of one wrapper at one position
	TrackAnswers bool
	answers      map[[2]int]string
	AnswerDiff   string
	// snapshots (C07)
	Snap    bool
	snaps   []snap
	cpSnaps []cpSnap
	// failure log (C06)
	LogFails   bool
	termFails  []failRec
	namedFails []failRec
	// budget
	Calls    int
	Budget   int
	ListCap  int
	curDepth int
	MaxNest  int
	// InLen >= 0: the remaining input is computed from the input length (base position 1),
	// independently of the library's Reader.Remaining
	InLen int
	Base  int // base position of the parsed file (default 1)
}

// cpSnap: a set of curtailed parsers as it read when a parser returned it.
type cpSnap struct {
	set  data.IntSet
	repr string
	who  string
	pos  int
}

type snap struct {
	node   parsley.Node
	repr   string
	who    string
	inTrim bool
	shape  string // the rendering without end positions
	ends   []int  // the end positions, in the order of the rendering
}

// shapeAndEnds renders a result without its end positions and lists those separately (an EMPTY
// node's single position counts as an end): what the known finding KF-1 may change, and what not.
func shapeAndEnds(n parsley.Node, base int) (string, []int) {
	var sb strings.Builder
	var ends []int
	var walk func(n parsley.Node)
	walk = func(n parsley.Node) {
		switch v := n.(type) {
		case nil:
			sb.WriteString("<nil>")
		case ast.NodeList:
			sb.WriteString("{")
			for i, c := range v {
				if i > 0 {
					sb.WriteString(" | ")
				}
				walk(c)
			}
			sb.WriteString("}")
		case ast.EmptyNode:
			sb.WriteString("EMPTY")
			ends = append(ends, int(v.Pos())-base)
		case *ast.NonTerminalNode:
			fmt.Fprintf(&sb, "%s@%d[", v.Token(), int(v.Pos())-base)
			for i, c := range v.Children() {
				if i > 0 {
					sb.WriteString(" ")
				}
				walk(c)
			}
			sb.WriteString("]")
			ends = append(ends, int(v.ReaderPos())-base)
		default:
			fmt.Fprintf(&sb, "%s(%T)@%d", n.Token(), n, int(n.Pos())-base)
			ends = append(ends, int(n.ReaderPos())-base)
		}
	}
	walk(n)
	return sb.String(), ends
}

type failRec struct {
	Pos  int
	What string
}

type boundExceeded struct{ msg string }

func NewProbe() *Probe {
	return &Probe{active: map[[2]int]int{}, maxActive: map[[2]int]int{}, evals: map[[2]int]int{}, asks: map[[2]int]int{},
		Bound: true, Budget: 20000, ListCap: 200, MaxSlack: -1 << 30, InLen: -1}
}

// BuildOpts selects how a grammar model is turned into parsley parsers.
type BuildOpts struct {
	MemoRules []bool // nil: every rule memoized
	Probe     *Probe // nil: no wrappers at all
	Interp    parsley.Interpreter
	NoMemo    bool // ignore Memo flags of expressions (plain build for C03)
	// CloneTrimOperand hands RightTrim a private copy of its operand's result, so that its
	// in-place SetReaderPos (known finding KF-1) cannot reach a node anybody else holds.
	CloneTrimOperand bool
	// Wide != 0: the terminal 'b' of the model is built as this (multi-byte) rune; the input is
	// transliterated accordingly (widen) and offsets are mapped back before they are compared
	Wide rune
	// RegKw: the terminal 'a' registers a keyword in the context every time it runs (a legal thing for
	// a parser to do; it must not cost anybody their cached results)
	RegKw bool
}

// Built is a grammar turned into parsers.
type Built struct {
	NT []*parser.Func
}

type pfunc = func(ctx *parsley.Context, l data.IntMap, pos parsley.Pos) (parsley.Node, data.IntSet, parsley.Error)

// Build turns the model into the library's combinators; nonterminals are parser.Func
// variables referenced by pointer, exactly as main_test.go does.
func Build(g *Grammar, o BuildOpts) *Built {
	g.exprs()
	probe := o.Probe
	b := &Built{NT: make([]*parser.Func, len(g.Rules))}
	for i := range b.NT {
		var f parser.Func
		b.NT[i] = &f
	}
	trimDepth := 0
	var build func(e *Expr) parsley.Parser
	observe := func(who string, p parsley.Parser, inTrim bool) parsley.Parser {
		if probe == nil {
			return p
		}
		return parser.Func(func(ctx *parsley.Context, l data.IntMap, pos parsley.Pos) (parsley.Node, data.IntSet, parsley.Error) {
			probe.Calls++
			if probe.Budget > 0 && probe.Calls > probe.Budget {
				panic(budgetExceeded{})
			}
			probe.curDepth++
			if probe.curDepth > probe.MaxNest {
				probe.MaxNest = probe.curDepth
			}
			n, cp, err := p.Parse(ctx, l, pos)
			probe.curDepth--
			if nl, ok := n.(ast.NodeList); ok && probe.ListCap > 0 && len(nl) > probe.ListCap {
				panic(budgetExceeded{})
			}
			if n != nil && probe.Snap {
				sh, en := shapeAndEnds(n, 1)
				probe.snaps = append(probe.snaps, snap{n, RenderResult(n, 1), who, inTrim, sh, en})
			}
			if probe.Snap && cp.Len() > 0 && len(probe.cpSnaps) < 4000 {
				// the set of curtailed parsers is part of the answer (a memoized parser stores it and
				// hands it out again): a set value, once returned, reads the same for ever
				probe.cpSnaps = append(probe.cpSnaps, cpSnap{cp, fmt.Sprint(setElems(cp)), who, int(pos)})
			}
			return n, cp, err
		})
	}
	memoize := func(key int, who string, p parsley.Parser, inTrim bool) parsley.Parser {
		inner := p
		if probe != nil {
			inner = parser.Func(func(ctx *parsley.Context, l data.IntMap, pos parsley.Pos) (parsley.Node, data.IntSet, parsley.Error) {
				probe.evals[[2]int{key, int(pos)}]++
				return p.Parse(ctx, l, pos)
			})
		}
		var m parsley.Parser = combinator.Memoize(inner)
		if probe != nil {
			mm := m
			m = parser.Func(func(ctx *parsley.Context, l data.IntMap, pos parsley.Pos) (parsley.Node, data.IntSet, parsley.Error) {
				probe.asks[[2]int{key, int(pos)}]++
				n, cp, err := mm.Parse(ctx, l, pos)
				if probe.TrackAnswers {
					if probe.answers == nil {
						probe.answers = map[[2]int]string{}
					}
					sh, _ := shapeAndEnds(n, 1)
					a := fmt.Sprintf("%s / error %v", sh, err)
					if err != nil {
						a += fmt.Sprintf(" at %d", int(err.Pos()))
					}
					k := [2]int{key, int(pos)}
					if old, ok := probe.answers[k]; !ok {
						probe.answers[k] = a
					} else if old != a && probe.AnswerDiff == "" {
						probe.AnswerDiff = fmt.Sprintf("the memoized %s answered at position %d first\n  %s\nand later\n  %s", who, int(pos)-1, old, a)
					}
				}
				return n, cp, err
			})
		}
		return observe("M:"+who, m, inTrim)
	}
	build = func(e *Expr) parsley.Parser {
		var p parsley.Parser
		if e.K == KRTrim {
			trimDepth++
		}
		kids := make([]parsley.Parser, len(e.Kids))
		for i, k := range e.Kids {
			kids[i] = build(k)
		}
		inTrim := trimDepth > 0
		if e.K == KRTrim {
			trimDepth--
		}
		seq := func(s *combinator.Sequence) parsley.Parser {
			if e.Name != "" {
				s = s.Name(e.Name)
			}
			if o.Interp != nil {
				s = s.Bind(o.Interp)
			}
			if e.Tok != "" {
				s = s.Token(e.Tok)
			}
			if e.RS {
				s = s.HandleResult(combinator.ReturnSingle())
			}
			return s
		}
		named := func(f parser.Func) parsley.Parser {
			if e.Name != "" {
				return f.Name(e.Name)
			}
			return f
		}
		switch e.K {
		case KTerm:
			tr := rune(e.ch())
			if o.Wide != 0 && tr == 'b' {
				tr = o.Wide
			}
			inner := terminal.Rune(tr)
			if o.RegKw && tr == 'a' {
				plain := inner
				inner = parser.Func(func(ctx *parsley.Context, l data.IntMap, pos parsley.Pos) (parsley.Node, data.IntSet, parsley.Error) {
					ctx.RegisterKeywords("kw")
					return plain.Parse(ctx, l, pos)
				})
			}
			p = inner
			if probe != nil && probe.LogFails {
				p = parser.Func(func(ctx *parsley.Context, l data.IntMap, pos parsley.Pos) (parsley.Node, data.IntSet, parsley.Error) {
					n, cp, err := inner.Parse(ctx, l, pos)
					if n == nil && err != nil {
						probe.termFails = append(probe.termFails, failRec{int(pos), err.Error()})
					}
					return n, cp, err
				})
			}
			if probe != nil && probe.Bound {
				// a terminal consumes its rune: a match that ends where it started would let a repetition
				// spin for ever (the budget would then silently discard the case)
				q, width := p, utf8.RuneLen(tr)
				p = parser.Func(func(ctx *parsley.Context, l data.IntMap, pos parsley.Pos) (parsley.Node, data.IntSet, parsley.Error) {
					n, cp, err := q.Parse(ctx, l, pos)
					// (U+FFFD also stands for one invalid byte: there it consumes 1 byte)
					if n != nil && (int(n.ReaderPos()) <= int(pos) || (tr != utf8.RuneError && int(n.ReaderPos()) != int(pos)+width)) {
						panic(boundExceeded{fmt.Sprintf("the terminal %q matched at position %d and ended at %d: it must consume exactly its %d byte(s)", string(tr), int(pos), int(n.ReaderPos()), width)})
					}
					return n, cp, err
				})
			}
		case KEmpty:
			p = parser.Empty()
		case KRef:
			p = b.NT[e.NT]
		case KSeqOf:
			p = seq(combinator.SeqOf(kids...))
		case KSeqTry:
			p = seq(combinator.SeqTry(kids...))
		case KSeqFirstOrAll:
			p = seq(combinator.SeqFirstOrAll(kids...))
		case KAny:
			p = named(combinator.Any(kids...))
		case KChoice:
			p = named(combinator.Choice(kids...))
		case KOpt:
			p = combinator.Optional(kids[0])
		case KMany:
			p = seq(combinator.Many(kids[0]))
		case KMany1:
			p = seq(combinator.Many1(kids[0]))
		case KSepBy:
			p = seq(combinator.SepBy(kids[0], kids[1]))
		case KSepBy1:
			p = seq(combinator.SepBy1(kids[0], kids[1]))
		case KSuppress:
			p = combinator.SuppressError(kids[0])
		case KSingle:
			p = combinator.Single(kids[0])
		case KLTrim:
			p = text.LeftTrim(kids[0], text.WsMode(e.Mode))
		case KRTrim:
			operand := kids[0]
			if o.CloneTrimOperand {
				operand = cloneResult(operand)
			}
			p = text.RightTrim(operand, text.WsMode(e.Mode))
		}
		if e.Name != "" && probe != nil && probe.LogFails {
			q, name := p, e.Name
			p = parser.Func(func(ctx *parsley.Context, l data.IntMap, pos parsley.Pos) (parsley.Node, data.IntSet, parsley.Error) {
				n, cp, err := q.Parse(ctx, l, pos)
				if n == nil {
					probe.namedFails = append(probe.namedFails, failRec{int(pos), "was expecting " + name})
				}
				return n, cp, err
			})
		}
		if e.K != KRef {
			p = observe(e.String(), p, inTrim)
		}
		if e.Memo && !o.NoMemo {
			p = memoize(e.ID, e.String(), p, inTrim)
		}
		return p
	}
	nullable := nullableRules(g)
	for i, r := range g.Rules {
		body := build(r)
		if o.MemoRules == nil || o.MemoRules[i] {
			inner := body
			if probe != nil {
				nt := i
				inner = parser.Func(func(ctx *parsley.Context, l data.IntMap, pos parsley.Pos) (parsley.Node, data.IntSet, parsley.Error) {
					k := [2]int{nt, int(pos)}
					probe.active[k]++
					d := probe.active[k]
					if d > probe.maxActive[k] {
						probe.maxActive[k] = d
					}
					if d > probe.MaxDepth {
						probe.MaxDepth = d
					}
					rem := ctx.Reader().Remaining(pos)
					if probe.InLen >= 0 {
						base := probe.Base
						if base == 0 {
							base = 1
						}
						rem = probe.InLen - (int(pos) - base)
					}
					if d-(rem+2) > probe.MaxSlack {
						probe.MaxSlack = d - (rem + 2)
					}
					if probe.Bound && d > rem+2 {
						probe.active[k]--
						panic(boundExceeded{fmt.Sprintf("rule N%d is active %d times at position %d with %d bytes remaining (bound %d)", nt, d, int(pos), rem, rem+2)})
					}
					defer func() { probe.active[k]-- }()
					return body.Parse(ctx, l, pos)
				})
			}
			pf := memoize(-1-i, fmt.Sprintf("N%d", i), inner, false).(parser.Func)
			if i < len(g.RuleNames) && g.RuleNames[i] != "" {
				name := g.RuleNames[i]
				named := pf.Name(name)
				pf = named
				if probe != nil && probe.LogFails {
					pf = func(ctx *parsley.Context, l data.IntMap, pos parsley.Pos) (parsley.Node, data.IntSet, parsley.Error) {
						n, cp, err := named.Parse(ctx, l, pos)
						if n == nil {
							probe.namedFails = append(probe.namedFails, failRec{int(pos), "was expecting " + name})
						}
						return n, cp, err
					}
				}
			}
			if probe != nil && probe.Bound && !nullable[i] {
				// a rule that cannot derive the empty string never answers with a zero-width result -
				// also not from the cache (a result whose end was moved back to its start makes every
				// repetition over it spin for ever, and the call budget would then discard the case)
				inner2, nt := pf, i
				pf = func(ctx *parsley.Context, l data.IntMap, pos parsley.Pos) (parsley.Node, data.IntSet, parsley.Error) {
					n, cp, err := inner2.Parse(ctx, l, pos)
					for _, alt := range alternatives(n) {
						if alt.ReaderPos() <= pos {
							panic(boundExceeded{fmt.Sprintf("rule N%d cannot match the empty string but answered at position %d with a result that ends at %d: a repetition over it never advances", nt, int(pos), int(alt.ReaderPos()))})
						}
					}
					return n, cp, err
				}
			}
			*b.NT[i] = pf
		} else {
			bb := body
			*b.NT[i] = func(ctx *parsley.Context, l data.IntMap, pos parsley.Pos) (parsley.Node, data.IntSet, parsley.Error) {
				return bb.Parse(ctx, l, pos)
			}
		}
	}
	return b
}

// NewCtx makes a fresh file, file set, reader and context for an input.
func NewCtx(input string) (*parsley.Context, *text.File) {
	f := newFileOwned("f", []byte(input))
	fs := parsley.NewFileSet(f)
	return parsley.NewContext(fs, text.NewReader(f)), f
}

// RenderNode renders a node with offsets relative to the base position.
func RenderNode(n parsley.Node, base int) string {
	switch v := n.(type) {
	case ast.EmptyNode:
		return fmt.Sprintf("EMPTY@%d", int(v.Pos())-base)
	case *ast.TerminalNode:
		if int(v.ReaderPos()) != int(v.Pos())+1 {
			return fmt.Sprintf("%s@%d..%d!", v.Token(), int(v.Pos())-base, int(v.ReaderPos())-base)
		}
		return fmt.Sprintf("%s@%d", v.Token(), int(v.Pos())-base)
	case *ast.NonTerminalNode:
		parts := make([]string, len(v.Children()))
		for i, c := range v.Children() {
			parts[i] = RenderNode(c, base)
		}
		return fmt.Sprintf("%s@%d..%d[%s]", v.Token(), int(v.Pos())-base, int(v.ReaderPos())-base, strings.Join(parts, " "))
	case ast.NodeList:
		return "NESTED-LIST!" + RenderResult(v, base)
	case parser.EndNode:
		return fmt.Sprintf("EOF@%d", int(v.Pos())-base)
	case nil:
		return "<nil>"
	}
	return fmt.Sprintf("?%T", n)
}

// RenderResult renders a node or a list of alternatives.
func RenderResult(n parsley.Node, base int) string {
	if nl, ok := n.(ast.NodeList); ok {
		parts := make([]string, len(nl))
		for i, c := range nl {
			parts[i] = RenderNode(c, base)
		}
		return "{" + strings.Join(parts, " | ") + "}"
	}
	return RenderNode(n, base)
}

// alternatives flattens a result into its alternative nodes.
func alternatives(n parsley.Node) []parsley.Node {
	if n == nil {
		return nil
	}
	if nl, ok := n.(ast.NodeList); ok {
		return []parsley.Node(nl)
	}
	return []parsley.Node{n}
}

// ResultSet renders every alternative; the map value is the end offset.
func ResultSet(n parsley.Node, base int) TreeSet {
	out := TreeSet{}
	for _, x := range alternatives(n) {
		out[RenderNode(x, base)] = int(x.ReaderPos()) - base
	}
	return out
}

// parseGuarded runs a parser and turns the activation-bound sentinel into an error; the
// budget sentinel keeps propagating (it means "discard").
func parseGuarded(p parsley.Parser, ctx *parsley.Context, l data.IntMap, pos parsley.Pos) (n parsley.Node, perr parsley.Error, bound error) {
	defer func() {
		if r := recover(); r != nil {
			if be, ok := r.(boundExceeded); ok {
				n, perr, bound = nil, nil, fmt.Errorf("%s", be.msg)
				return
			}
			panic(r)
		}
	}()
	n, _, perr = p.Parse(ctx, l, pos)
	return n, perr, nil
}

// cloneResult returns shallow copies of the alternatives a parser returns.
func cloneResult(p parsley.Parser) parsley.Parser {
	cl := func(n parsley.Node) parsley.Node {
		switch v := n.(type) {
		case *ast.TerminalNode:
			cp := *v
			return &cp
		case *ast.NonTerminalNode:
			cp := *v
			return &cp
		}
		return n
	}
	return parser.Func(func(ctx *parsley.Context, l data.IntMap, pos parsley.Pos) (parsley.Node, data.IntSet, parsley.Error) {
		n, cp, err := p.Parse(ctx, l, pos)
		switch v := n.(type) {
		case nil:
		case ast.NodeList:
			nl := make(ast.NodeList, len(v))
			for i, x := range v {
				nl[i] = cl(x)
			}
			n = nl
		default:
			n = cl(n)
		}
		return n, cp, err
	})
}

// NewCtxAt places the input file after a file of preLen bytes (preLen 0: alone, base 1).
// wideMap is a transliterated input: every byte 'b' of the model's input stands for one
// multi-byte rune in the text the library gets.
type wideMap struct {
	Lib string      // what the library parses
	Off []int       // model offset -> library offset (len(in)+1 entries)
	Inv map[int]int // library offset -> model offset (rune boundaries only)
}

func widen(in string, r rune) wideMap {
	w := wideMap{Inv: map[int]int{}}
	var sb strings.Builder
	for i := 0; i <= len(in); i++ {
		w.Off = append(w.Off, sb.Len())
		w.Inv[sb.Len()] = i
		if i < len(in) {
			if r != 0 && in[i] == 'b' {
				sb.WriteRune(r)
			} else {
				sb.WriteByte(in[i])
			}
		}
	}
	w.Lib = sb.String()
	return w
}

// newFileOwned creates a file from a buffer the caller goes on using: the buffer (which has spare
// capacity) is overwritten as soon as NewFile has returned. The file must not live in it.
func newFileOwned(name string, data []byte) *text.File {
	buf := append(make([]byte, 0, len(data)+8), data...)
	f := text.NewFile(name, buf)
	for i := range buf {
		buf[i] = '#'
	}
	_ = append(buf, "########"...)
	return f
}

func NewCtxAt(input string, preLen int) (*parsley.Context, *text.File, int) {
	return NewCtxAtNamed("f", input, preLen)
}

// fileNameKind: names a caller may give a file; a location names the file exactly like that
// (an unnamed file is left out of the location).
func fileNameKind(k int) string {
	switch k {
	case 1:
		return ""
	case 2:
		return "./f"
	case 3:
		return "d/../f"
	case 4:
		return "d//f"
	case 5:
		return "f/"
	case 6:
		return "."
	case 7:
		return "my%20f" // a name is data, never a format string
	case 8:
		return "100%"
	}
	return "f"
}

func NewCtxAtNamed(name string, input string, preLen int) (*parsley.Context, *text.File, int) {
	f := newFileOwned(name, []byte(input))
	if preLen <= 0 {
		return parsley.NewContext(parsley.NewFileSet(f), text.NewReader(f)), f, 1
	}
	// (the parsed file is neither the first nor the last of its set)
	fs := parsley.NewFileSet(text.NewFile("pre", []byte(strings.Repeat("x", preLen))), f, text.NewFile("post", []byte("y\nz")))
	return parsley.NewContext(fs, text.NewReader(f)), f, preLen + 2
}
