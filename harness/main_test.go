package harness

import "testing"

func TestReplay(t *testing.T) { runReplay(t) }
