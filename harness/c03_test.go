package harness

import (
	"fmt"
	"os"
	"strings"
	"testing"
	"unicode/utf8"

	"github.com/opsidian/parsley/combinator"
	"github.com/opsidian/parsley/data"
	"github.com/opsidian/parsley/parser"
	"github.com/opsidian/parsley/parsley"
	"github.com/opsidian/parsley/text"
	"github.com/opsidian/parsley/text/terminal"
	"pgregory.net/rapid"
)

// C03Case: a left-recursion-free grammar, the subset of rules (and, through Memo flags,
// of sub-expressions) chosen for memoization, an input, with or without a Sentence root.
type C03Case struct {
	G         *Grammar `json:"g"`
	In        string   `json:"in"`
	MemoRules []bool   `json:"memoRules"`
	Sentence  bool     `json:"sentence"`
	PreLen    int      `json:"preLen,omitempty"` // > 0: the parsed file follows a file of that length in the file set
	RegKw     bool     `json:"regKw,omitempty"`  // the terminal 'a' registers a keyword whenever it runs (in both grammars)
	Wide      int      `json:"wide,omitempty"`   // != 0: the terminal 'b' and the input byte 'b' are this multi-byte rune
	// Long > 0: no generated grammar but a backtracking template on an input of Long elements (see
	// checkC03Long): "at most once per input position" on inputs far longer than any table size
	Long     int `json:"long,omitempty"`
	LongKind int `json:"longKind,omitempty"`
}

func (c *C03Case) Describe() string {
	return fmt.Sprintf("grammar: %s input: %q memoRules=%v sentence=%v preceding file of %d bytes", c.G, c.In, c.MemoRules, c.Sentence, c.PreLen)
}

type outcome struct {
	Res    string
	Err    string
	CtxErr string
	Calls  int
}

// c03RegKw is set by checkC03 for the duration of one case (all builds of the case share it).
var c03RegKw bool

func runC03(g *Grammar, in string, memoRules []bool, noMemo bool, probe *Probe, sentence bool, preLen int, wide ...rune) outcome {
	o0 := BuildOpts{MemoRules: memoRules, NoMemo: noMemo, Probe: probe, RegKw: c03RegKw}
	if len(wide) > 0 {
		o0.Wide = wide[0]
	}
	b := Build(g, o0)
	ctx, f := NewCtx(in)
	if preLen > 0 {
		f = newFileOwned("f", []byte(in))
		fs := parsley.NewFileSet(text.NewFile("pre", []byte(strings.Repeat("x", preLen))), f)
		ctx = parsley.NewContext(fs, text.NewReader(f))
	}
	var root parsley.Parser = b.NT[0]
	if sentence {
		root = combinator.Sentence(root)
	}
	if len(in) >= 2 {
		// the grammar value has a history: it parsed a shorter input (the first half, cut at a rune
		// boundary) on a context of its own before
		h := len(in) / 2
		for h > 0 && !utf8.RuneStart(in[h]) {
			h--
		}
		ctx0, f0 := NewCtx(in[:h])
		_, _, _ = root.Parse(ctx0, data.EmptyIntMap, f0.Pos(0))
		if probe != nil {
			// the counts belong to the parse under test
			probe.evals, probe.asks, probe.Calls = map[[2]int]int{}, map[[2]int]int{}, 0
		}
	}
	node, _, err := root.Parse(ctx, data.EmptyIntMap, f.Pos(0))
	o := outcome{Res: RenderResult(node, 1), Calls: ctx.CallCount()}
	if err != nil {
		o.Err = fmt.Sprintf("%d:%s", err.Pos(), err.Error())
	}
	if ce := ctx.Error(); ce != nil {
		o.CtxErr = fmt.Sprintf("%d", ce.Pos())
	}
	return o
}

// checkC03Long: S -> X 'c' | X 'd' with X = A* (kind 0), X = Memoize(A*) (kind 1) or
// X = A (',' A)* (kind 2), A a memoized terminal, on n elements followed by 'd': the second
// alternative meets every position again, and every answer is in the cache by then. Each
// memoized parser runs at most once per position, the input is accepted, and the plain grammar
// returns the same tree.
func checkC03Long(c *C03Case, st *Stats) error {
	n := c.Long
	if n < 1 || n > 20000 {
		return Discard{"long template: bad length"}
	}
	runs := map[[2]int]int{}
	counted := func(id int, p parsley.Parser) parsley.Parser {
		return parser.Func(func(ctx *parsley.Context, l data.IntMap, pos parsley.Pos) (parsley.Node, data.IntSet, parsley.Error) {
			runs[[2]int{id, int(pos)}]++
			return p.Parse(ctx, l, pos)
		})
	}
	build := func(memo bool) parsley.Parser {
		m := func(id int, p parsley.Parser) parsley.Parser {
			if memo {
				return combinator.Memoize(counted(id, p))
			}
			return p
		}
		a := m(0, terminal.Rune('a'))
		var x parsley.Parser
		switch c.LongKind % 3 {
		case 0:
			x = combinator.Many(a)
		case 1:
			x = m(1, combinator.Many(a))
		default:
			x = combinator.SepBy(a, m(2, terminal.Rune(',')))
		}
		return combinator.Sentence(combinator.Any(combinator.SeqOf(x, terminal.Rune('c')), combinator.SeqOf(x, terminal.Rune('d'))))
	}
	in := strings.Repeat("a", n) + "d"
	if c.LongKind%3 == 2 {
		in = "a" + strings.Repeat(",a", n-1) + "d"
	}
	parse := func(p parsley.Parser) (string, error) {
		ctx, _, _ := NewCtxAt(in, c.PreLen)
		node, err := parsley.Parse(ctx, p)
		if err != nil {
			return "", err
		}
		return fmt.Sprintf("%s %d..%d", node.Token(), node.Pos(), node.ReaderPos()), nil
	}
	mres, merr := parse(build(true))
	if merr != nil {
		return fmt.Errorf("long template %d on %d elements: the memoized grammar rejects its sentence: %v", c.LongKind%3, n, merr)
	}
	for k, v := range runs {
		if v > 1 {
			return fmt.Errorf("long template %d on %d elements: the parser under Memoize #%d ran %d times at position %d within one parse", c.LongKind%3, n, k[0], v, k[1])
		}
	}
	pres, perr := parse(build(false))
	if perr != nil || pres != mres {
		return fmt.Errorf("long template %d on %d elements: plain grammar %s / %v, memoized %s", c.LongKind%3, n, pres, perr, mres)
	}
	st.Class("long backtracking template (1000-5000 elements)")
	st.NonTrivial()
	return nil
}

func checkC03(ci interface{}, st *Stats) error {
	c := ci.(*C03Case)
	if c.Long > 0 {
		return checkC03Long(c, st)
	}
	if c.G == nil {
		return Discard{"no grammar"}
	}
	g, in := c.G, c.In
	g.number()
	for i, lr := range leftRecursiveRules(g) {
		if lr {
			_ = i
			if os.Getenv("DEBUG_LR") != "" {
				fmt.Println("LR-DISCARD", c.Describe())
			}
			return Discard{"left-recursive grammar (outside the property's domain)"}
		}
	}
	if len(c.MemoRules) != len(g.Rules) {
		return Discard{"memoRules length"}
	}
	wide := rune(c.Wide)
	if wide != 0 {
		if wide < 0x80 || !utf8.ValidRune(wide) {
			return Discard{"not a multi-byte rune"}
		}
		in = widen(in, wide).Lib // both grammars get the same transliterated input
		st.Class("terminal b is a multi-byte rune")
	}
	c03RegKw = c.RegKw
	defer func() { c03RegKw = false }()
	if c.RegKw {
		st.Class("a terminal registers a keyword while parsing")
	}
	none := make([]bool, len(g.Rules))
	pp := NewProbe()
	pp.Bound = false
	plain := runC03(g, in, none, true, pp, c.Sentence, c.PreLen, wide)
	probe := NewProbe()
	probe.Bound = false
	m1 := runC03(g, in, c.MemoRules, false, probe, c.Sentence, c.PreLen, wide)
	for k, v := range probe.evals {
		if v > 1 {
			who := fmt.Sprintf("expression #%d", k[0])
			if k[0] < 0 {
				who = fmt.Sprintf("rule N%d", -1-k[0])
			}
			return fmt.Errorf("the parser under Memoize (%s) ran %d times at position %d within one parse", who, v, k[1])
		}
	}
	if plain.Res != m1.Res || plain.Err != m1.Err || plain.CtxErr != m1.CtxErr {
		return fmt.Errorf("memoization is not transparent:\n plain    %+v\n memoized %+v", plain, m1)
	}
	p2 := NewProbe()
	p2.Bound = false
	m2 := runC03(g, in, c.MemoRules, false, p2, c.Sentence, c.PreLen, wide)
	if m1 != m2 {
		return fmt.Errorf("a repeated parse with a fresh context differs:\n first  %+v\n second %+v", m1, m2)
	}
	// without any wrapper parsers (the probes must not be what makes it work)
	m3 := runC03(g, in, c.MemoRules, false, nil, c.Sentence, c.PreLen, wide)
	if m3 != m1 {
		return fmt.Errorf("the un-instrumented build differs:\n probed %+v\n bare   %+v", m1, m3)
	}
	// one context used for two Parse calls: the rule itself as root, then Sentence(rule). Whatever the
	// first call leaves in the context, it leaves it for the memoized and for the plain grammar alike;
	// the second call (whose memoized parsers answer from the first call's cache) must reach the same
	// verdict and report the same location (the text may differ: of several failures at the furthest
	// position the one recorded last is named, and a cache hit does not record again)
	twoCalls := func(noMemo bool) (first, second string) {
		b := Build(g, BuildOpts{MemoRules: c.MemoRules, NoMemo: noMemo, RegKw: c03RegKw, Wide: wide})
		ctx, _, _ := NewCtxAt(in, c.PreLen)
		render := func(n parsley.Node, err error) string {
			if err != nil {
				m := err.Error()
				if i := strings.LastIndex(m, " at "); i >= 0 {
					return "error" + m[i:]
				}
				return "error without location: " + m
			}
			return RenderResult(n, 1)
		}
		n1, e1 := parsley.Parse(ctx, b.NT[0])
		first = render(n1, e1)
		n2, e2 := parsley.Parse(ctx, combinator.Sentence(b.NT[0]))
		return first, render(n2, e2)
	}
	if !hasKind(g, KLTrim, KRTrim) {
		// (results are rendered relative to the file start only when the file stands alone; with a
		// preceding file both grammars are shifted alike)
		pf, ps := twoCalls(true)
		mf, ms := twoCalls(false)
		if pf != mf || ps != ms {
			return fmt.Errorf("two Parse calls on one context (the rule as root, then Sentence(rule)): plain grammar %s then %s, memoized grammar %s then %s", pf, ps, mf, ms)
		}
		if !strings.HasPrefix(pf, "error") && strings.HasPrefix(ps, "error") {
			st.Class("one context, two Parse calls: the first succeeds, the second fails")
		}
	}
	hits := 0
	for _, v := range probe.asks {
		if v > 1 {
			hits += v - 1
		}
	}
	if hits > 0 {
		st.NonTrivial()
		st.Class("cache hit happened")
	}
	if m1.Calls < plain.Calls {
		st.Class("memo saved calls")
	}
	if m1.Err != "" {
		st.Class("parse failed")
	} else {
		st.Class("parse succeeded")
	}
	if m1.CtxErr != "" {
		st.Class("context error recorded")
	}
	if c.PreLen > 0 {
		st.Class("file placed after another file")
	}
	if hasKind(g, KSuppress) {
		st.Class("grammar with SuppressError")
	}
	if len(probe.asks) == 0 {
		st.Class("nothing memoized")
	}
	return nil
}

func init() {
	register(&Property{
		ID:      "C03",
		NewCase: func() interface{} { return &C03Case{} },
		Gen: func(t *rapid.T) interface{} {
			if rapid.IntRange(0, 199).Draw(t, "long") == 77 {
				n := rapid.SampledFrom([]int{1000, 1023, 1024, 1025, 1100, 2047, 2049, 3000, 4097, 5000}).Draw(t, "longN") + rapid.IntRange(0, 3).Draw(t, "longOff")
				return &C03Case{Long: n, LongKind: rapid.IntRange(0, 2).Draw(t, "longKind"), PreLen: rapid.SampledFrom([]int{0, 0, 7, 70000}).Draw(t, "longPre")}
			}
			o := GenOpts{MaxNT: 3, MaxDepth: 3, Alphabet: "ab", NonMono: true, MaxInput: 6, ExtraMemo: 3, Names: true, LRFree: true, Share: true, MemoLeaves: true, Suppress: rapid.IntRange(0, 2).Draw(t, "suppress") == 0}
			// trimming with operands that return fresh nodes (see genRefTrim): RightTrim must then leave
			// every memoized node alone, and memoized and plain grammar agree
			o.RefTrims = rapid.IntRange(0, 3).Draw(t, "reftrims") == 0
			o.Single = rapid.IntRange(0, 3).Draw(t, "single") == 0 // memoized and plain grammar agree whatever Single does with a result
			if thorough() {
				o.MaxNT, o.MaxInput = 4, 8
			}
			g := GenGrammar(t, o)
			shared := rapid.IntRange(0, 3).Draw(t, "share") > 0
			if shared {
				shareTransform(t, g, o)
				fixRepetitions(g, t, o.Alphabet)
				fixLeftRecursion(g, t, o.Alphabet)
				fixRepetitions(g, t, o.Alphabet)
				g.number()
			}
			if o.RefTrims && rapid.Bool().Draw(t, "trimshare") {
				trimShareTransform(t, g, o)
				fixRepetitions(g, t, o.Alphabet)
				fixLeftRecursion(g, t, o.Alphabet)
				fixRepetitions(g, t, o.Alphabet)
				g.number()
			}
			aliased := !shared && rapid.IntRange(0, 1).Draw(t, "alias") == 0
			if aliased {
				// a cached multi-result list consumed several times at one position by consecutive
				// elements of one sequence, each of which extends it
				aliasSkeleton(t, g, o)
				fixRepetitions(g, t, o.Alphabet)
				fixLeftRecursion(g, t, o.Alphabet)
				fixRepetitions(g, t, o.Alphabet)
				g.number()
			}
			memo := make([]bool, len(g.Rules))
			for i := range memo {
				memo[i] = rapid.IntRange(0, 2).Draw(t, "memoRule") > 0 || aliased
			}
			if shared {
				memo[len(memo)-1] = rapid.IntRange(0, 5).Draw(t, "memoShared") > 0
			}
			pre := 0
			if rapid.IntRange(0, 2).Draw(t, "placed") == 0 {
				pre = rapid.IntRange(1, 12).Draw(t, "preLen")
				if rapid.IntRange(0, 9).Draw(t, "hugepre") == 4 {
					pre = rapid.SampledFrom([]int{65533, 65534, 65536, 70000, 140000}).Draw(t, "hugeLen")
				}
			}
			wideRune := 0
			if !o.RefTrims && rapid.IntRange(0, 4).Draw(t, "wide") == 0 {
				wideRune = int(rapid.SampledFrom([]rune{0x80, 0xe9, 0xff, 0x7ff, 0x800, 0x20ac, 0xfffd, 0x10000, 0x1f600}).Draw(t, "wideRune"))
			}
			return &C03Case{G: g, In: GenInput(t, g, o), MemoRules: memo, Sentence: rapid.Bool().Draw(t, "sentence"), PreLen: pre, Wide: wideRune, RegKw: rapid.IntRange(0, 2).Draw(t, "regKw") == 0}
		},
		Check: checkC03,
	})
}

func TestC03(t *testing.T) { RunProperty(t, "C03") }
