package harness

// Reference recogniser/evaluator for the language of examples/json/json/parser.go,
// written from the grammar text (Choice order, SepBy longest-path rule, LeftTrim modes).

type jm struct {
	d []byte
}

var errJM = &struct{}{}

func wsRun(d []byte, i int) (end int, nl bool) {
	for i < len(d) && (d[i] == ' ' || d[i] == '\t' || d[i] == '\n' || d[i] == '\f') {
		if d[i] == '\n' || d[i] == '\f' {
			nl = true
		}
		i++
	}
	return i, nl
}

// value at i (no leading whitespace). returns value, end, ok
func (m *jm) value(i int) (interface{}, int, bool) {
	if l := ModelString(m.d, i, false); l.Match || l.Lenient {
		if !l.Match || l.RawBreakEarly {
			return nil, 0, false // (a raw line break in a plain string: no string, and nothing else starts with a quote)
		}
		return l.Value, l.End, true
	}
	if i < len(m.d) && m.d[i] == '"' {
		return nil, 0, false // string alternative failed; no other alternative starts with a quote
	}
	if l := ModelFloat(m.d, i); l.Match {
		return l.Value, l.End, true
	}
	if l := ModelInteger(m.d, i); l.Match {
		return l.Value, l.End, true
	}
	if i < len(m.d) && m.d[i] == '[' {
		return m.list(i, ']', false)
	}
	if i < len(m.d) && m.d[i] == '{' {
		return m.list(i, '}', true)
	}
	if e, ok := ModelWord(m.d, i, "true"); ok {
		return true, e, true
	}
	if e, ok := ModelWord(m.d, i, "false"); ok {
		return false, e, true
	}
	if e, ok := ModelWord(m.d, i, "null"); ok {
		return nil, e, true
	}
	return nil, 0, false
}

func (m *jm) item(i int, obj bool) (string, interface{}, int, bool) {
	if !obj {
		v, e, ok := m.value(i)
		return "", v, e, ok
	}
	l := ModelString(m.d, i, false)
	if !l.Match || l.RawBreakEarly {
		return "", nil, 0, false
	}
	j, nl := wsRun(m.d, l.End)
	if nl || j >= len(m.d) || m.d[j] != ':' {
		return "", nil, 0, false
	}
	j, _ = wsRun(m.d, j+1)
	v, e, ok := m.value(j)
	if !ok {
		return "", nil, 0, false
	}
	return l.Value.(string), v, e, true
}

func (m *jm) list(i int, closer byte, obj bool) (interface{}, int, bool) {
	cur := i + 1
	arr := []interface{}{}
	om := map[string]interface{}{}
	n := 0
	for {
		j, _ := wsRun(m.d, cur)
		k, v, e, ok := m.item(j, obj)
		if !ok {
			if n > 0 {
				return nil, 0, false // a separator was consumed: even-length chain is no SepBy result
			}
			break
		}
		n++
		if obj {
			om[k] = v
		} else {
			arr = append(arr, v)
		}
		cur = e
		j, nl := wsRun(m.d, cur)
		if nl || j >= len(m.d) || m.d[j] != ',' {
			break
		}
		cur = j + 1
	}
	j, _ := wsRun(m.d, cur)
	if j >= len(m.d) || m.d[j] != closer {
		return nil, 0, false
	}
	if obj {
		return om, j + 1, true
	}
	return arr, j + 1, true
}

// JSONModel evaluates a whole document: Sentence(Trim(value))
func JSONModel(d []byte) (interface{}, bool) {
	m := &jm{d: d}
	i, _ := wsRun(d, 0)
	v, e, ok := m.value(i)
	if !ok {
		return nil, false
	}
	e, _ = wsRun(d, e)
	if e != len(d) {
		return nil, false
	}
	return v, true
}
