package harness

import (
	"bytes"
	"fmt"
	"reflect"
	"regexp"
	"testing"
	"unicode/utf8"

	"github.com/opsidian/parsley/data"
	"github.com/opsidian/parsley/parsley"
	"github.com/opsidian/parsley/text"
	"github.com/opsidian/parsley/text/terminal"
	"pgregory.net/rapid"
)

// C08Case: a byte string and the construction parameters of the parameterised literal
// parsers; every parser is applied at every offset.
type C08Case struct {
	Data   []byte `json:"data"`
	True   string `json:"true"`
	False  string `json:"false"`
	Nil    string `json:"nil"`
	Word   string `json:"word"`
	Op     string `json:"op"`
	Rune   rune   `json:"rune"`
	Regexp string `json:"regexp"`
	Group  int    `json:"group"`
	// Shared: one reader serves every parser at every offset (offsets outer, parsers inner), and a
	// dozen further Regexp terminals with distinct expressions take part: a literal's result must not
	// depend on what the reader was used for before
	Shared bool `json:"shared,omitempty"`
	// Pre > 0: the file is the second one of its set, behind a file of that many bytes
	Pre int `json:"pre,omitempty"`
}

func (c *C08Case) Describe() string {
	return fmt.Sprintf("data=%q bool=%q/%q nil=%q word=%q op=%q rune=%q regexp=%q group=%d", c.Data, c.True, c.False, c.Nil, c.Word, c.Op, c.Rune, c.Regexp, c.Group)
}

var litFrags = []string{"\"", "'", "`", "\\", "\\n", "\\x", "\\x41", "\\u00e9", "\\U0001F600", "\\q", "\\/", "\xff", "\xc3", "é", "😀",
	"1", "9223372036854775807", "9223372036854775808", "-9223372036854775808", "-9223372036854775809", "0x", "0xFF", "0X7fffffffffffffff", "0x8000000000000000", "07", "08", "0777777777777777777777", "01000000000000000000000",
	".", "e", "E+", "-", "+", "1e999", "1e-999", "1.5", ".5", "1.7976931348623157e308", "1.8e308", "4.9e-324",
	"ns", "us", "µs", "μs", "ms", "s", "m", "h", "9999999999h", "2562047h", "2562048h", "2h45m", "1.5h", "300ms",
	"true", "false", "nil", "null", "yes", "no", "foo", "let", "_", "==", "=", "=>", "a", "z9", " ", "\n", "\r\n", "\r", "\t",
	"\\'", "\\\"", "\\400", "\\07", "\\101", "\\ud800", "\\\\", "\\a", "\\v", "\\U00110000", "\\uD83D"}

var c08Regexps = []struct {
	Expr  string
	Group int
}{
	{"[a-z]+([0-9]*)", 1}, {"[a-z]+([0-9]*)", 0}, {"[a-z_][a-z0-9_]*", 0}, {"(\\d+)(?:\\.(\\d+))?", 2}, {"\\s+", 0}, {"(?i)true|false", 0}, {"[^\\x00-\\x7f]+", 0}, {"a|ab", 0}, {"(a)|b", 1}, {".", 0},
}

var strItems = []string{"a", "b", " ", "é", "😀", "\\n", "\\t", "\\\"", "\\\\", "\\'", "\\x41", "\\xff", "\\u00e9", "\\U0001F600", "\\101", "\\377", "\\400", "\\q", "\\/", "\\ud800", "\\x4", "\\u12", "\xff", "\xc3", "\n", "\r", "\r\n", "'", "`", "\\a", "\\v", "\\0", "\x00", "\\"}

func genC08(t *rapid.T) interface{} {
	c := &C08Case{}
	bw := rapid.SampledFrom([][2]string{{"true", "false"}, {"yes", "no"}, {"T", "F"}, {"on", "off"}, {"#t", "#f"}, {"ok!", "no!"}}).Draw(t, "boolwords")
	c.True, c.False = bw[0], bw[1]
	c.Nil = rapid.SampledFrom([]string{"nil", "null", "none", "n", "()", "~", "nil?", "nil"}).Draw(t, "nilword") // (a word is any text; it ends where no word character follows)
	c.Word = rapid.SampledFrom([]string{"foo", "let", "_", "a", "z9", "true", "=>", "a-b"}).Draw(t, "word") // (ASCII only: MatchWord refuses other words)
	item := func() string { return strItems[rapid.IntRange(0, len(strItems)-1).Draw(t, "item")] }
	n := rapid.IntRange(0, 6).Draw(t, "n")
	for i := 0; i < n; i++ {
		switch k := rapid.IntRange(0, 9).Draw(t, "piece"); {
		case k <= 1:
			c.Data = append(c.Data, rapid.Byte().Draw(t, "byte"))
		case k <= 5:
			c.Data = append(c.Data, litFrags[rapid.IntRange(0, len(litFrags)-1).Draw(t, "frag")]...)
		case k == 6: // string literal
			q := rapid.SampledFrom([]string{"\"", "\"", "\"", "`"}).Draw(t, "quote")
			c.Data = append(c.Data, q...)
			m := rapid.IntRange(0, 4).Draw(t, "items")
			for j := 0; j < m; j++ {
				c.Data = append(c.Data, item()...)
			}
			if rapid.IntRange(0, 5).Draw(t, "close") > 0 {
				c.Data = append(c.Data, q...)
			}
		case k == 7: // char literal
			c.Data = append(c.Data, '\'')
			c.Data = append(c.Data, item()...)
			if rapid.IntRange(0, 5).Draw(t, "close") > 0 {
				c.Data = append(c.Data, '\'')
			}
		case k == 8: // keyword, possibly followed by a word character
			w := rapid.SampledFrom([]string{c.True, c.False, c.Nil, c.Word}).Draw(t, "kw")
			c.Data = append(c.Data, w...)
			c.Data = append(c.Data, rapid.SampledFrom([]string{"", " ", "_", "1", "x", ".", "é", "\n"}).Draw(t, "after")...)
		default: // number / duration
			c.Data = append(c.Data, rapid.SampledFrom([]string{"", "", "-", "+"}).Draw(t, "sign")...)
			c.Data = append(c.Data, fmt.Sprint(rapid.IntRange(0, 1200).Draw(t, "int"))...)
			c.Data = append(c.Data, rapid.SampledFrom([]string{"", "", ".", ".5", ".25e3", ".5e", ".5E-2", "h", "m30s", "ms", "us", "µs", "μs", "ns", ".5h", "h1", "e5", "x1", " "}).Draw(t, "numtail")...)
		}
	}
	if c.Data == nil {
		c.Data = []byte{}
	}
	c.Op = rapid.SampledFrom([]string{"==", "=", "=>", "+", "-", "é", "\n", "a", "'"}).Draw(t, "op")
	c.Rune = rapid.SampledFrom([]rune{'a', 'é', '\n', '😀', '"', '\'', 0x7f, 0x80, 0xff, 0x7ff, 0x800, 0xffff, 0x10ffff, '1', '.'}).Draw(t, "rune")
	re := c08Regexps[rapid.IntRange(0, len(c08Regexps)-1).Draw(t, "regexp")]
	c.Regexp, c.Group = re.Expr, re.Group
	c.Shared = rapid.IntRange(0, 2).Draw(t, "sharedReader") == 0
	if rapid.IntRange(0, 2).Draw(t, "placed") == 0 {
		c.Pre = rapid.SampledFrom([]int{1, 2, 5, 40, 300, 65536}).Draw(t, "pre")
	}
	return c
}

type litEntry struct {
	name  string
	p     parsley.Parser
	model func(d []byte, off int) Lit
}

func wordLit(d []byte, off int, w string, v interface{}) Lit {
	if e, ok := ModelWord(d, off, w); ok {
		return Lit{Match: true, End: e, Value: v}
	}
	return Lit{}
}

func c08Parsers(c *C08Case) []litEntry {
	re := regexp.MustCompile(c.Regexp)
	return []litEntry{
		{"Integer", terminal.Integer("i"), ModelInteger},
		{"Float", terminal.Float("f"), ModelFloat},
		{"String(backquote)", terminal.String("s", true), func(d []byte, o int) Lit { return ModelString(d, o, true) }},
		{"String", terminal.String("s", false), func(d []byte, o int) Lit { return ModelString(d, o, false) }},
		{"Char", terminal.Char("c"), ModelChar},
		{"Bool", terminal.Bool("b", c.True, c.False), func(d []byte, o int) Lit {
			if l := wordLit(d, o, c.True, true); l.Match {
				return l
			}
			return wordLit(d, o, c.False, false)
		}},
		{"Nil", terminal.Nil("n", c.Nil), func(d []byte, o int) Lit { return wordLit(d, o, c.Nil, nil) }},
		{"Word", terminal.Word("w", c.Word, 42), func(d []byte, o int) Lit { return wordLit(d, o, c.Word, 42) }},
		{"TimeDuration", terminal.TimeDuration("d"), ModelDuration},
		{"Op", terminal.Op(c.Op), func(d []byte, o int) Lit {
			if e, ok := ModelPrefix(d, o, c.Op); ok {
				return Lit{Match: true, End: e, Value: c.Op}
			}
			return Lit{}
		}},
		{"Rune", terminal.Rune(c.Rune), func(d []byte, o int) Lit {
			if e, ok := ModelPrefix(d, o, string(c.Rune)); ok {
				return Lit{Match: true, End: e, Value: c.Rune}
			}
			return Lit{}
		}},
		{"Regexp", terminal.Regexp("r", "RE", "regexp match", c.Regexp, c.Group), func(d []byte, o int) Lit {
			if o >= len(d) {
				return Lit{}
			}
			m := re.FindSubmatchIndex(d[o:])
			if m == nil || m[0] != 0 || m[1] == 0 {
				return Lit{}
			}
			v := ""
			if m[2*c.Group] >= 0 {
				v = string(d[o+m[2*c.Group] : o+m[2*c.Group+1]])
			}
			return Lit{Match: true, End: o + m[1], Value: v}
		}},
	}
}

func reEntry(name, expr string, group int) litEntry {
	re := regexp.MustCompile(expr)
	return litEntry{name, terminal.Regexp("r", "RE", "regexp match", expr, group), func(d []byte, o int) Lit {
		if o >= len(d) {
			return Lit{}
		}
		m := re.FindSubmatchIndex(d[o:])
		if m == nil || m[0] != 0 || m[1] == 0 {
			return Lit{}
		}
		v := ""
		if m[2*group] >= 0 {
			v = string(d[o+m[2*group] : o+m[2*group+1]])
		}
		return Lit{Match: true, End: o + m[1], Value: v}
	}}
}

func checkC08(ci interface{}, st *Stats) error {
	c := ci.(*C08Case)
	if c.True == "" || c.False == "" || c.Nil == "" || c.Word == "" || c.Op == "" || !utf8.ValidRune(c.Rune) || c.Rune == utf8.RuneError {
		return Discard{"parameters outside the documented domain"}
	}
	if err := checkLiterals(c, st); err != nil {
		return err
	}
	return nil
}

func checkLiterals(c *C08Case, st *Stats) (err error) {
	f := newFileOwned("f", c.Data)
	d := normCRLF(c.Data)
	if len(d) != f.Len() {
		return fmt.Errorf("file length %d differs from the CRLF-normalised content length %d", f.Len(), len(d))
	}
	fs := parsley.NewFileSet(f)
	if c.Pre > 0 {
		fs = parsley.NewFileSet(text.NewFile("pre", bytes.Repeat([]byte("0"), c.Pre)), f)
		if st != nil {
			st.Class("file placed behind another file")
		}
	}
	base := int(f.Pos(0))
	nontrivial := false
	entries := c08Parsers(c)
	type job struct {
		e   litEntry
		off int
	}
	var jobs []job
	var shared *text.Reader
	if c.Shared {
		for k := 1; k <= 7; k++ {
			entries = append(entries, reEntry(fmt.Sprintf("Regexp([a-z0-9]{%d})", k), fmt.Sprintf("[a-z0-9]{%d}", k), 0),
				reEntry(fmt.Sprintf("Regexp(\\d{%d}\\.?)", k), fmt.Sprintf("\\d{%d}\\.?", k), 0))
		}
		shared = text.NewReader(f)
		for off := 0; off <= len(d); off++ {
			for _, e := range entries {
				jobs = append(jobs, job{e, off})
			}
		}
		if st != nil {
			st.Class("one reader for all parsers and offsets, > 16 distinct regular expressions")
		}
	} else {
		for _, e := range entries {
			for off := 0; off <= len(d); off++ {
				jobs = append(jobs, job{e, off})
			}
		}
	}
	for _, j := range jobs {
		e, off := j.e, j.off
		{
			want := e.model(d, off)
			var node parsley.Node
			var perr parsley.Error
			if pe := func() (pe error) {
				defer func() {
					if r := recover(); r != nil {
						pe = fmt.Errorf("%s panicked at offset %d: %v", e.name, off, r)
					}
				}()
				rd := shared
				if rd == nil {
					rd = text.NewReader(f)
				}
				ctx := parsley.NewContext(fs, rd)
				node, _, perr = e.p.Parse(ctx, data.EmptyIntMap, f.Pos(off))
				return nil
			}(); pe != nil {
				return pe
			}
			if (node == nil) == (perr == nil) {
				return fmt.Errorf("%s at offset %d returned node=%v and error=%v (exactly one expected)", e.name, off, node, perr)
			}
			if perr != nil && (int(perr.Pos()) < off+base || int(perr.Pos()) > len(d)+base) {
				return fmt.Errorf("%s at offset %d: error position %d is outside [%d,%d]", e.name, off, int(perr.Pos())-base, off, len(d))
			}
			if node != nil && (int(node.Pos()) != off+base || int(node.ReaderPos()) <= off+base || int(node.ReaderPos()) > len(d)+base) {
				return fmt.Errorf("%s at offset %d: node spans %d..%d (file length %d)", e.name, off, int(node.Pos())-base, int(node.ReaderPos())-base, len(d))
			}
			if want.Lenient {
				if st != nil {
					st.Class("lenient (documentation silent)")
				}
				if node == nil {
					continue
				}
			}
			if want.Match != (node != nil) {
				return fmt.Errorf("%s at offset %d: matched=%v, the documented syntax says %v (node %v, error %v)", e.name, off, node != nil, want.Match, node, perr)
			}
			if node == nil {
				continue
			}
			if st != nil {
				st.Class("literal scanned: " + e.name)
			}
			if want.End-off >= 2 {
				nontrivial = true
			}
			ln, ok := node.(parsley.LiteralNode)
			if !ok {
				return fmt.Errorf("%s returned a node without a literal value: %T", e.name, node)
			}
			got := ln.Value()
			okv := reflect.DeepEqual(got, want.Value)
			for _, a := range want.Alt {
				okv = okv || reflect.DeepEqual(got, a)
			}
			if int(node.ReaderPos()) != want.End+base {
				return fmt.Errorf("%s at offset %d ends at %d, the longest literal of its syntax ends at %d", e.name, off, int(node.ReaderPos())-base, want.End)
			}
			if !okv {
				return fmt.Errorf("%s at offset %d has value %#v, decoding %q gives %#v", e.name, off, got, d[off:want.End], want.Value)
			}
		}
	}
	if nontrivial && st != nil {
		st.NonTrivial()
	}
	return nil
}

func init() {
	register(&Property{ID: "C08", NewCase: func() interface{} { return &C08Case{} }, Gen: genC08, Check: checkC08})
}

func TestC08(t *testing.T) { RunProperty(t, "C08") }

// FuzzC08: coverage-guided bytes through every literal parser with the same model oracle.
func FuzzC08(f *testing.F) {
	for _, s := range litFrags {
		f.Add([]byte(s), byte(0))
		f.Add([]byte("\""+s+"\""), byte(1))
		f.Add([]byte("'"+s+"'"), byte(2))
	}
	f.Fuzz(func(t *testing.T, b []byte, sel byte) {
		if len(b) > 64 {
			return
		}
		re := c08Regexps[int(sel)%len(c08Regexps)]
		c := &C08Case{Data: b, True: "true", False: "false", Nil: "nil", Word: "foo", Op: "==", Rune: []rune{'a', 'é', '😀', 0xff}[int(sel)%4], Regexp: re.Expr, Group: re.Group}
		if err := checkLiterals(c, nil); err != nil {
			fuzzFail(t, "C08", c, err)
		}
	})
}
