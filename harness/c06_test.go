package harness

import (
	"fmt"
	"strconv"
	"strings"
	"testing"

	"github.com/opsidian/parsley/combinator"
	"github.com/opsidian/parsley/data"
	"github.com/opsidian/parsley/parser"
	"github.com/opsidian/parsley/parsley"
	"github.com/opsidian/parsley/text"
	"github.com/opsidian/parsley/text/terminal"
	"pgregory.net/rapid"
)

// C06: errors point at the furthest failure and render a real line:column.
//
// F = the maximum position at which a terminal or End was tried and did not match, taken
// from a failure log kept by wrappers around the terminals (an observation that does not
// depend on the library's error plumbing).

func allNamed(g *Grammar) bool {
	for _, e := range g.exprs() {
		if (e.K == KAny || e.K == KChoice) && e.Name == "" {
			return false
		}
	}
	return true
}

// runeFailText: what terminal.Rune(r) says it was expecting when it does not match (at the end of
// an empty input).
func runeFailText(r rune) (msg string) {
	defer func() {
		if p := recover(); p != nil {
			msg = fmt.Sprintf("<panic: %v>", p)
		}
	}()
	f := text.NewFile("p", []byte{})
	ctx := parsley.NewContext(parsley.NewFileSet(f), text.NewReader(f))
	n, _, err := terminal.Rune(r).Parse(ctx, data.EmptyIntMap, f.Pos(0))
	if n != nil || err == nil {
		return "<no error>"
	}
	return err.Error()
}

// runeTemplate: how the library words the expectation of the terminal 'x', split around the
// quoted rune - when (and only when) it quotes it the way strconv.Quote does. The expectation of
// every other rune must then be worded the same way around its own quoted form: an expectation
// names what was expected, in one line of text (no raw quote, backslash or control character
// that a reader could not tell from the message's own punctuation).
var runeTemplate = func() (t struct {
	pre, suf string
	ok       bool
}) {
	msg, q := runeFailText('x'), strconv.Quote("x")
	if i := strings.Index(msg, q); i >= 0 {
		t.pre, t.suf, t.ok = msg[:i], msg[i+len(q):], true
	}
	return
}()

func checkC06(ci interface{}, st *Stats) error {
	c := ci.(*GCase)
	g, in := c.G, c.In
	g.number()
	if runeTemplate.ok {
		seen := map[byte]bool{}
		for _, e := range g.exprs() {
			if e.K != KTerm || seen[e.ch()] {
				continue
			}
			seen[e.ch()] = true
			want := runeTemplate.pre + strconv.Quote(string(rune(e.ch()))) + runeTemplate.suf
			if got := runeFailText(rune(e.ch())); got != want {
				return fmt.Errorf("the expectation of the terminal %q reads %q; worded like the one of 'x' (%q) it reads %q", rune(e.ch()), got, runeFailText('x'), want)
			}
			if c := e.ch(); c == '"' || c == '\\' || c < 0x20 || c == 0x7f {
				st.Class("terminal whose expectation needs quoting (quote, backslash, control character)")
			}
		}
	}
	for i, ok := range loudRules(g) {
		if !ok {
			return Discard{fmt.Sprintf("rule %d is not loud (can fail without any terminal attempt)", i)}
		}
	}
	for _, e := range g.exprs() {
		if e.K == KOpt && e.Name != "" {
			return Discard{"Optional(...).Name() is outside the property"}
		}
	}
	ref := NewRef(g, in)
	probe := NewProbe()
	probe.LogFails = true
	b := Build(g, BuildOpts{MemoRules: c.memoRules(), Probe: probe})
	// one file, parsed once per rule as the root: the file object (and its lazily built line
	// table) is reused by several failing parses whose errors lie at different places
	file := newFileOwned("f", []byte(in))
	fs := parsley.NewFileSet(file)
	if c.PreLen > 0 {
		// the parsed file is neither the first nor the last of its set
		fs = parsley.NewFileSet(text.NewFile("before", []byte(strings.Repeat("x\n", c.PreLen))), file, text.NewFile("after", []byte("y\ny")))
		st.Class("file placed between two other files")
	}
	judged := 0
	for root := range g.Rules {
		if ref.T[root][0]&(1<<uint(len(in))) != 0 {
			st.Class("matching input (skipped)")
			continue
		}
		probe.termFails, probe.namedFails = nil, nil
		if err := checkC06Root(c, st, b, probe, fs, file, root); err != nil {
			if _, isDiscard := err.(Discard); isDiscard {
				continue
			}
			return fmt.Errorf("root N%d: %v", root, err)
		}
		judged++
	}
	if judged == 0 {
		return nil
	}
	return nil
}

func checkC06Root(c *GCase, st *Stats, b *Built, probe *Probe, fs *parsley.FileSet, file *text.File, rootRule int) error {
	g, in := c.G, c.In
	endP := parser.End()
	end := parser.Func(func(ctx *parsley.Context, l data.IntMap, pos parsley.Pos) (parsley.Node, data.IntSet, parsley.Error) {
		n, cp, err := endP.Parse(ctx, l, pos)
		if n == nil && err != nil {
			probe.termFails = append(probe.termFails, failRec{int(pos), err.Error()})
		}
		return n, cp, err
	})
	ctx := parsley.NewContext(fs, text.NewReader(file))
	root := combinator.SeqOf(b.NT[rootRule], end)
	var node parsley.Node
	var err error
	var berr error
	func() {
		defer func() {
			if r := recover(); r != nil {
				if be, ok := r.(boundExceeded); ok {
					berr = fmt.Errorf("%s", be.msg)
					return
				}
				panic(r)
			}
		}()
		node, err = parsley.Parse(ctx, root)
	}()
	if berr != nil {
		return berr
	}
	// the same parse once more on the same context (results come from its cache now): the verdict
	// and the reported error must be the same
	if err != nil && berr == nil {
		var err2 error
		keepT, keepN := probe.termFails, probe.namedFails
		func() {
			defer func() {
				if r := recover(); r != nil {
					if be, ok := r.(boundExceeded); ok {
						err2 = fmt.Errorf("%s", be.msg)
						return
					}
					panic(r) // the call budget (the case is discarded) or a genuine panic
				}
			}()
			_, err2 = parsley.Parse(ctx, root)
		}()
		probe.termFails, probe.namedFails = keepT, keepN
		// (the expectation text may differ between the two: of several failures at the furthest position
		// the one recorded last wins, and cache hits do not record again; the position may not)
		suffix := func(e error) string {
			if e == nil {
				return "<no error>"
			}
			m := e.Error()
			if i := strings.LastIndex(m, " at "); i >= 0 {
				return m[i:]
			}
			return "<no location> " + m
		}
		if suffix(err2) != suffix(err) {
			return fmt.Errorf("a second Parse on the same context reports %q, the first one reported %q: another location", fmt.Sprint(err2), err.Error())
		}
	}
	if err == nil {
		return fmt.Errorf("the input is not derived by the grammar but Parse succeeded: %s", RenderResult(node, int(file.Pos(0))))
	}
	base := int(file.Pos(0))
	F := -1
	for _, f := range probe.termFails {
		if f.Pos > F {
			F = f.Pos
		}
	}
	if F < 0 {
		return Discard{"no terminal was attempted"}
	}
	msg := err.Error()
	const pfx = "failed to parse the input: "
	if !strings.HasPrefix(msg, pfx) {
		return fmt.Errorf("error text %q does not start with %q", msg, pfx)
	}
	at := strings.LastIndex(msg, " at f:")
	if at < 0 {
		return fmt.Errorf("error text %q has no ' at <file>:<line>:<column>' suffix", msg)
	}
	var l, col int
	if n, _ := fmt.Sscanf(msg[at:], " at f:%d:%d", &l, &col); n != 2 || msg[at:] != fmt.Sprintf(" at f:%d:%d", l, col) {
		return fmt.Errorf("malformed position suffix in %q", msg)
	}
	expct := msg[len(pfx):at]
	q := -1
	for off := 0; off <= len(in); off++ {
		if ll, cc := lineCol(in, off); ll == l && cc == col {
			q = off + base
		}
	}
	if q < 0 {
		return fmt.Errorf("line:column %d:%d of %q does not denote a position of the file", l, col, msg)
	}
	// the position of the underlying parsley.Error must be the same one
	var pe parsley.Error
	if perr, ok := unwrapParsleyError(err); ok {
		pe = perr
		if int(pe.Pos()) != q {
			return fmt.Errorf("rendered location %d:%d (position %d) differs from the error's position %d", l, col, q, pe.Pos())
		}
	}
	if q > F {
		return fmt.Errorf("reported position %d (%q) is beyond the furthest failed terminal attempt %d; attempts: %v", q, msg, F, probe.termFails)
	}
	named := allNamed(g)
	if named {
		st.Class("all Any/Choice named")
		if q != F {
			return fmt.Errorf("every Any/Choice is named but the reported position %d (%q) is not the furthest failure %d; attempts: %v", q, msg, F, probe.termFails)
		}
	} else if q < F {
		st.Class("reported position before the furthest failure (unnamed alternatives)")
	}
	ok := false
	for _, f := range probe.termFails {
		if f.Pos == q && f.What == expct {
			ok = true
		}
	}
	for _, f := range probe.namedFails {
		if f.Pos == q && f.What == expct {
			ok = true
		}
	}
	if !ok {
		return fmt.Errorf("expectation %q at position %d did not really fail there; terminal attempts %v, named %v", expct, q, probe.termFails, probe.namedFails)
	}
	st.Class("failing parse checked")
	rec := recursiveRules(g)
	anyRec := false
	for _, r := range rec {
		anyRec = anyRec || r
	}
	if F > base && (anyRec || hasMemo(g)) {
		st.NonTrivial()
		st.Class("furthest failure beyond the start, recursive or memoized grammar")
	}
	if strings.Contains(in[:min(len(in), q-base)], "\n") {
		st.Class("error not on the first line")
	}
	return nil
}

func hasMemo(g *Grammar) bool {
	for _, e := range g.exprs() {
		if e.Memo {
			return true
		}
	}
	return false
}

func unwrapParsleyError(err error) (parsley.Error, bool) {
	for err != nil {
		if pe, ok := err.(parsley.Error); ok {
			return pe, true
		}
		u, ok := err.(interface{ Unwrap() error })
		if !ok {
			return nil, false
		}
		err = u.Unwrap()
	}
	return nil, false
}

func init() {
	register(&Property{
		ID:      "C06",
		NewCase: func() interface{} { return &GCase{} },
		Gen: func(t *rapid.T) interface{} {
			o := GenOpts{MaxNT: 3, MaxDepth: 3, Alphabet: "ab\n", NonMono: true, MaxInput: 6, Names: true, Skeleton: rapid.Bool().Draw(t, "skeleton"), NearMiss: true}
			if thorough() {
				o.MaxNT, o.MaxInput = 4, 8
			}
			switch rapid.IntRange(0, 7).Draw(t, "percent") {
			case 0, 1:
				o.Alphabet = "a%\n" // an expectation that contains a formatting verb character
			case 2:
				o.Alphabet = "a\f\n" // a form feed is a byte like any other for line and column
			case 3:
				// terminals whose expectation text needs quoting
				o.Alphabet = rapid.SampledFrom([]string{"a\"\n", "a\\\n", "a\x01\n", "a\x7f\n", "a\t\n"}).Draw(t, "quotedAlphabet")
			}
			if rapid.IntRange(0, 3).Draw(t, "extramemo") == 0 {
				o.ExtraMemo = 4
			}
			g := GenGrammar(t, o)
			if rapid.IntRange(0, 2).Draw(t, "prefixalts") == 0 {
				prefixAlternatives(t, g, o)
			}
			makeLoud(g)
			for _, e := range g.exprs() {
				if e.K == KOpt {
					e.Name = ""
				}
			}
			if rapid.Bool().Draw(t, "nameAll") {
				for _, e := range g.exprs() {
					if (e.K == KAny || e.K == KChoice) && e.Name == "" {
						e.Name = rapid.SampledFrom([]string{"nX", "nX", "n%X", "100%"}).Draw(t, "nameAllText")
					}
				}
			}
			pre := 0
			if rapid.IntRange(0, 2).Draw(t, "placed") == 0 {
				pre = rapid.IntRange(1, 9).Draw(t, "preLines")
			}
			return &GCase{G: g, In: GenInput(t, g, o), MemoAll: rapid.Bool().Draw(t, "memoAll"), PreLen: pre}
		},
		Check: checkC06,
	})
}

func TestC06(t *testing.T) { RunProperty(t, "C06") }
