package harness

import "testing"

// Coverage-guided variants of the grammar-driven properties (thorough tier): the fuzzer's
// bytes drive the same rapid generators and the same oracles.
func FuzzC01(f *testing.F) { FuzzProperty(f, "C01") }
func FuzzC02(f *testing.F) { FuzzProperty(f, "C02") }
func FuzzC03(f *testing.F) { FuzzProperty(f, "C03") }
func FuzzC04(f *testing.F) { FuzzProperty(f, "C04") }
func FuzzC06(f *testing.F) { FuzzProperty(f, "C06") }
func FuzzC07(f *testing.F) { FuzzProperty(f, "C07") }
func FuzzC10(f *testing.F) { FuzzProperty(f, "C10") }
func FuzzC11(f *testing.F) { FuzzProperty(f, "C11") }
func FuzzC12(f *testing.F) { FuzzProperty(f, "C12") }
func FuzzC13(f *testing.F) { FuzzProperty(f, "C13") }
func FuzzC15(f *testing.F) { FuzzProperty(f, "C15") }
