package harness

import (
	"bytes"
	stdjson "encoding/json"
	"fmt"
	"reflect"
	"strconv"
	"strings"
	"testing"

	"github.com/opsidian/parsley/combinator"
	"github.com/opsidian/parsley/examples/json/json"
	"github.com/opsidian/parsley/parsley"
	"github.com/opsidian/parsley/text"
	"pgregory.net/rapid"
)

// C16Case: a document; Subset says the generator built it from the supported subset (then a
// value is required), otherwise it is a corruption / hostile input.
type C16Case struct {
	Doc         []byte `json:"doc"`
	Subset      bool   `json:"subset"`
	Pre         int    `json:"pre,omitempty"`         // > 0: the document is the second file of its set, behind a file of that many bytes
	Disk        bool   `json:"disk,omitempty"`        // the document is written to disk and loaded with text.ReadFile (as examples/json does)
	ReaderFirst bool   `json:"readerFirst,omitempty"` // the reader exists before the document is placed in its set
	PadWS       int    `json:"padWs,omitempty"`       // > 0: that many spaces and one CRLF are put in front of the document (large files)
}

func (c *C16Case) Describe() string { return fmt.Sprintf("subset=%v doc=%q", c.Subset, c.Doc) }

type jsonShape struct {
	depth  int
	object bool
	escape bool
	ws     bool
	dupKey bool
}

func genJSON(t *rapid.T, depth int) string {
	wsAny := func() string {
		return rapid.SampledFrom([]string{"", "", " ", "\n", " \t", "\r\n ", "\n\n"}).Draw(t, "ws")
	}
	wsSp := func() string { return rapid.SampledFrom([]string{"", "", " ", "\t ", "  "}).Draw(t, "wssp") }
	str := func() string {
		n := rapid.IntRange(0, 4).Draw(t, "sl")
		var sb strings.Builder
		sb.WriteByte('"')
		for i := 0; i < n; i++ {
			sb.WriteString(rapid.SampledFrom([]string{"a", "b", " ", "é", "😀", "\\n", "\\t", "\\\"", "\\\\", "\\b", "\\f", "\\r", "\\u00e9", "\\u0041", "\\u0000", "\\u20ac", "\\uFFFF", "x", "0", "/", "'", "\x7f", "k"}).Draw(t, "sc"))
		}
		sb.WriteByte('"')
		return sb.String()
	}
	num := func() string {
		switch rapid.IntRange(0, 8).Draw(t, "nk") {
		case 7:
			// the shortest decimal text of an arbitrary float64 (15-17 significant digits, no exponent)
			f := rapid.Float64Range(-1e6, 1e6).Draw(t, "f64")
			return strconv.FormatFloat(f, 'f', -1, 64)
		case 8:
			// 16-19 significant digits written out
			ip := rapid.Int64Range(0, 999999999).Draw(t, "longIP")
			fp := rapid.Int64Range(0, 9999999999).Draw(t, "longFP")
			return fmt.Sprintf("%d.%010d", ip, fp)
		case 0:
			return "0"
		case 1:
			return fmt.Sprint(rapid.Int64().Draw(t, "i64"))
		case 2:
			return fmt.Sprint(rapid.IntRange(-1000, 1000).Draw(t, "small"))
		case 3:
			return fmt.Sprintf("%d.%d", rapid.IntRange(-100, 100).Draw(t, "ip"), rapid.IntRange(0, 999).Draw(t, "fp"))
		case 4:
			return fmt.Sprintf("-0.%d", rapid.IntRange(0, 99).Draw(t, "fp2"))
		case 5:
			return rapid.SampledFrom([]string{"9223372036854775807", "-9223372036854775808", "0.0", "-0.0", "1.0e0", "1.5E3", "123456789.125", "-1.5e999", "1.5e999", "-1.0e400", "-1.7976931348623159e308", "1.7976931348623157e308", "-1.7976931348623157e308", "4.9e-324", "-4.9e-324", "1.0e-400"}).Draw(t, "edge")
		default:
			return fmt.Sprintf("%d.%de%s%d", rapid.IntRange(0, 9).Draw(t, "m"), rapid.IntRange(0, 99).Draw(t, "f"), rapid.SampledFrom([]string{"", "+", "-"}).Draw(t, "es"), rapid.IntRange(0, 320).Draw(t, "ex"))
		}
	}
	if depth <= 0 {
		switch rapid.IntRange(0, 4).Draw(t, "leaf") {
		case 0:
			return str()
		case 1, 2:
			return num()
		case 3:
			return rapid.SampledFrom([]string{"true", "false"}).Draw(t, "b")
		default:
			return "null"
		}
	}
	switch rapid.IntRange(0, 4).Draw(t, "kind") {
	case 0:
		return genJSON(t, 0)
	case 1, 2:
		n := rapid.IntRange(0, 3).Draw(t, "an")
		parts := make([]string, n)
		for i := range parts {
			parts[i] = wsAny() + genJSON(t, depth-1) + wsSp()
		}
		return "[" + strings.Join(parts, ",") + wsAny() + "]"
	default:
		n := rapid.IntRange(0, 3).Draw(t, "on")
		parts := make([]string, n)
		var keys []string
		for i := range parts {
			k := str()
			if len(keys) > 0 && rapid.IntRange(0, 3).Draw(t, "dup") == 0 {
				k = keys[rapid.IntRange(0, len(keys)-1).Draw(t, "dupi")]
			}
			keys = append(keys, k)
			parts[i] = wsAny() + k + wsSp() + ":" + wsAny() + genJSON(t, depth-1) + wsSp()
		}
		return "{" + strings.Join(parts, ",") + wsAny() + "}"
	}
}

func genC16(t *rapid.T) interface{} {
	maxd := 4
	if thorough() {
		maxd = 6
	}
	doc := rapid.SampledFrom([]string{"", "", " ", "\n", "\r\n", "\t"}).Draw(t, "lead") + genJSON(t, rapid.IntRange(0, maxd).Draw(t, "depth")) + rapid.SampledFrom([]string{"", "", " ", "\n", "\r\n", "\r\n\r\n", " \t"}).Draw(t, "trail")
	c := &C16Case{Doc: []byte(doc), Subset: true}
	if rapid.IntRange(0, 3).Draw(t, "mut") == 0 && len(doc) > 0 {
		c.Subset = false
		switch rapid.IntRange(0, 5).Draw(t, "mk") {
		case 5:
			// a raw control character right behind a quote: inside a string (no JSON, and no string of
			// the grammar when it is a line break) or behind one (no whitespace)
			idx := []int{}
			for i := range doc {
				if doc[i] == '"' {
					idx = append(idx, i)
				}
			}
			if len(idx) > 0 {
				i := idx[rapid.IntRange(0, len(idx)-1).Draw(t, "quote")] + 1
				c.Doc = []byte(doc[:i] + rapid.SampledFrom([]string{"\r", "\r", "\n", "\x00", "\x1f", "\t", "\f"}).Draw(t, "rawctl") + doc[i:])
			}
		case 0:
			c.Doc = []byte(doc[:rapid.IntRange(0, len(doc)-1).Draw(t, "cut")])
		case 1:
			idx := []int{}
			for i := range doc {
				if doc[i] == ',' || doc[i] == ':' {
					idx = append(idx, i)
				}
			}
			if len(idx) > 0 {
				i := idx[rapid.IntRange(0, len(idx)-1).Draw(t, "sep")]
				c.Doc = []byte(doc[:i] + doc[i+1:])
			}
		case 2:
			c.Doc = []byte(doc + rapid.SampledFrom([]string{"]", "}", ",", "x", " 1", "\n\"a\"", "null", "[]"}).Draw(t, "trailjunk"))
		case 3:
			// hostile extras: only "no panic" plus the two-reference rule below
			i := rapid.IntRange(0, len(doc)).Draw(t, "hi")
			c.Doc = []byte(doc[:i] + rapid.SampledFrom([]string{"\"\\/\"", "\"\\ud800\"", "\"\xff\"", "1e999", "123456789012345678901234567890", "\"\\q\"", "\"\n\"", "\"\\u12\"", ".5", "01", "+1", "0x1F", "tru", "nul", "\f", "\v", "\v", "\x00", "\r", "\u0085", "\u00a0", "\u2028", "\ufeff"}).Draw(t, "hostile") + doc[i:])
		default:
			i := rapid.IntRange(0, len(doc)-1).Draw(t, "di")
			c.Doc = []byte(doc[:i] + doc[i+1:])
		}
	}
	switch rapid.IntRange(0, 5).Draw(t, "place") {
	case 0, 1:
		c.Pre = rapid.IntRange(1, 40).Draw(t, "pre")
	case 2:
		c.Pre = rapid.SampledFrom([]int{65530, 65536, 70000}).Draw(t, "prehuge")
	}
	c.Disk = rapid.IntRange(0, 3).Draw(t, "disk") == 0
	c.ReaderFirst = rapid.Bool().Draw(t, "readerFirst")
	if rapid.IntRange(0, 30).Draw(t, "pad") == 7 {
		c.Disk = true
		c.PadWS = rapid.SampledFrom([]int{65533, 65534, 65535, 65536, 131070, 131071, 131072}).Draw(t, "padws")
	}
	return c
}

// jsonEqual compares decoded documents; an integer may be delivered as int64 or as the float64
// encoding/json itself would produce (the property fixes the value, not Go's number type).
func jsonEqual(want, got interface{}) bool {
	switch w := want.(type) {
	case int64:
		switch g := got.(type) {
		case int64:
			return w == g
		case int:
			return w == int64(g)
		case float64:
			return float64(w) == g
		}
		return false
	case float64:
		switch g := got.(type) {
		case float64:
			return w == g
		case int64:
			return w == float64(g)
		}
		return false
	case []interface{}:
		g, ok := got.([]interface{})
		if !ok || len(g) != len(w) {
			return false
		}
		for i := range w {
			if !jsonEqual(w[i], g[i]) {
				return false
			}
		}
		return true
	case map[string]interface{}:
		g, ok := got.(map[string]interface{})
		if !ok || len(g) != len(w) {
			return false
		}
		for k, wv := range w {
			gv, ok := g[k]
			if !ok || !jsonEqual(wv, gv) {
				return false
			}
		}
		return true
	}
	return reflect.DeepEqual(want, got)
}

func normStd(v interface{}) (interface{}, bool) {
	switch x := v.(type) {
	case stdjson.Number:
		s := string(x)
		if strings.ContainsAny(s, ".eE") {
			f, err := x.Float64()
			if err != nil {
				return nil, false
			}
			return f, true
		}
		i, err := x.Int64()
		if err != nil {
			return nil, false
		}
		return i, true
	case []interface{}:
		out := make([]interface{}, len(x))
		for i := range x {
			var ok bool
			if out[i], ok = normStd(x[i]); !ok {
				return nil, false
			}
		}
		return out, true
	case map[string]interface{}:
		out := map[string]interface{}{}
		for k, e := range x {
			var ok bool
			if out[k], ok = normStd(e); !ok {
				return nil, false
			}
		}
		return out, true
	}
	return v, true
}

var jsonP = combinator.Sentence(text.Trim(json.NewParser()))

func stdDecode(doc string) (interface{}, error) {
	dec := stdjson.NewDecoder(bytes.NewReader([]byte(doc)))
	dec.UseNumber()
	var sv interface{}
	if err := dec.Decode(&sv); err != nil {
		return nil, err
	}
	if _, err := dec.Token(); err == nil || err.Error() != "EOF" {
		return nil, fmt.Errorf("trailing input")
	}
	return sv, nil
}

func jsonDepth(v interface{}) (depth int, object bool) {
	switch x := v.(type) {
	case []interface{}:
		for _, e := range x {
			d, o := jsonDepth(e)
			if d > depth {
				depth = d
			}
			object = object || o
		}
		return depth + 1, object
	case map[string]interface{}:
		for _, e := range x {
			d, _ := jsonDepth(e)
			if d > depth {
				depth = d
			}
		}
		return depth + 1, true
	}
	return 0, false
}

func checkJSONDoc(doc string, subset bool, st *Stats) (err error) {
	return checkJSONDocAt(doc, subset, 0, false, st)
}

func checkJSONDocAt(doc string, subset bool, pre int, disk bool, st *Stats, readerFirst ...bool) (err error) {
	var got interface{}
	var gerr error
	func() {
		defer func() {
			if r := recover(); r != nil {
				err = fmt.Errorf("the JSON example panicked: %v", r)
			}
		}()
		f := newFileOwned("f", []byte(doc))
		if disk {
			var derr error
			if f, _, derr = fileViaDisk([]byte(doc)); derr != nil {
				err = Discard{"temporary file: " + derr.Error()}
				return
			}
		}
		newSet := func() *parsley.FileSet {
			if pre > 0 {
				return parsley.NewFileSet(text.NewFile("pre", bytes.Repeat([]byte("[1, 2]\n"), pre/7+1)[:pre]), f)
			}
			return parsley.NewFileSet(f)
		}
		var early *text.Reader
		if len(readerFirst) > 0 && readerFirst[0] {
			early = text.NewReader(f)
		}
		rd := func() *text.Reader {
			if early != nil {
				return early
			}
			return text.NewReader(f)
		}
		ctx := parsley.NewContext(newSet(), rd())
		got, gerr = parsley.Evaluate(ctx, jsonP)
		// the same loaded file evaluated again (fresh context and reader) must give the same answer:
		// evaluating must not consume or rewrite the document
		ctx2 := parsley.NewContext(newSet(), rd())
		// (this time with the two tree passes enabled, as the example's own benchmark does: the example's
		// interpreters neither transform nor check anything, so the answer is the same)
		ctx2.EnableTransformation()
		ctx2.EnableStaticCheck()
		got2, gerr2 := parsley.Evaluate(ctx2, jsonP)
		if (gerr == nil) != (gerr2 == nil) || (gerr == nil && !reflect.DeepEqual(got, got2)) || (gerr != nil && gerr.Error() != gerr2.Error()) {
			err = fmt.Errorf("a second evaluation of the same loaded file differs: first %#v / %v, second %#v / %v", got, gerr, got2, gerr2)
			return
		}
		// one parsed tree evaluated twice: evaluating must not change the tree
		ctx3 := parsley.NewContext(newSet(), text.NewReader(f))
		if node, perr := parsley.Parse(ctx3, jsonP); perr == nil {
			v1, e1 := parsley.EvaluateNode(nil, node)
			v2, e2 := parsley.EvaluateNode(nil, node)
			if (e1 == nil) != (e2 == nil) || !reflect.DeepEqual(v1, v2) || (gerr == nil && e1 == nil && !reflect.DeepEqual(v1, got)) {
				err = fmt.Errorf("evaluating one parsed tree twice differs: first %#v / %v, second %#v / %v (Evaluate gave %#v)", v1, e1, v2, e2, got)
			}
		}
	}()
	if err != nil {
		return err
	}
	sv, serr := stdDecode(doc)
	mv, mok := JSONModel(normCRLF([]byte(doc)))
	if subset {
		if serr != nil {
			return Discard{"generator produced a document encoding/json rejects: " + serr.Error()}
		}
		nv, ok := normStd(sv)
		// a duplicate key can hide an out-of-range number from the decoded value: scan the tokens
		td := stdjson.NewDecoder(bytes.NewReader([]byte(doc)))
		td.UseNumber()
		for {
			tok, terr := td.Token()
			if terr != nil {
				break
			}
			if n, isNum := tok.(stdjson.Number); isNum {
				if _, okn := normStd(n); !okn {
					ok = false
				}
			}
		}
		if !ok {
			if st != nil {
				st.Class("number out of range (error required)")
			}
			if gerr == nil {
				return fmt.Errorf("a number outside the float64/int64 range was accepted: %#v", got)
			}
			return nil
		}
		if gerr != nil {
			return fmt.Errorf("document of the supported subset rejected: %v", gerr)
		}
		if !jsonEqual(nv, got) {
			return fmt.Errorf("value differs from encoding/json:\n parsley      %#v\n encoding/json %#v", got, nv)
		}
		if st != nil {
			st.Class("subset document, value compared")
			d, obj := jsonDepth(nv)
			if d >= 2 && obj && (strings.Contains(doc, "\\") || strings.ContainsAny(strings.TrimSpace(doc), " \t\n")) {
				st.NonTrivial()
			}
			if d >= 2 {
				st.Class("nesting depth >= 2")
			}
			if d >= 4 {
				st.Class("nesting depth >= 4")
			}
			if strings.Contains(doc, "\\") {
				st.Class("string escape")
			}
		}
		return nil
	}
	// corrupted / hostile documents: an error is required only when both references reject
	switch {
	case serr != nil && !mok:
		if st != nil {
			st.Class("rejected by encoding/json and by the grammar model (error required)")
		}
		if gerr == nil {
			return fmt.Errorf("not JSON and not in the example grammar's language, but a value was returned: %#v", got)
		}
	case serr == nil && mok:
		if st != nil {
			st.Class("corruption still valid for both references (value compared)")
		}
		nv, ok := normStd(sv)
		if ok {
			if gerr != nil {
				return fmt.Errorf("valid for encoding/json and for the grammar model but rejected: %v", gerr)
			}
			if !jsonEqual(nv, got) && jsonEqual(mv, got) {
				// the two references disagree on the value (outside the subset): nothing demanded
				if st != nil {
					st.Class("references disagree on the value")
				}
			} else if !jsonEqual(nv, got) {
				return fmt.Errorf("value differs from encoding/json and from the grammar model:\n parsley %#v\n encoding/json %#v\n model %#v", got, nv, mv)
			}
		}
	default:
		if st != nil {
			st.Class("references disagree (only: no panic)")
		}
	}
	return nil
}

func checkC16(ci interface{}, st *Stats) error {
	c := ci.(*C16Case)
	doc := string(c.Doc)
	if c.PadWS > 0 {
		if c.PadWS > 1<<18 {
			return Discard{"padding too long"}
		}
		doc = strings.Repeat(" ", c.PadWS) + "\r\n" + doc
		st.Class("large document (leading whitespace run with a CRLF)")
	}
	if c.Pre > 0 {
		st.Class("document is the second file of its set")
	}
	if c.Disk {
		st.Class("document loaded with text.ReadFile")
	}
	if c.ReaderFirst && c.Pre > 0 {
		st.Class("reader created before the document was placed")
	}
	return checkJSONDocAt(doc, c.Subset, c.Pre, c.Disk, st, c.ReaderFirst)
}

func init() {
	register(&Property{ID: "C16", NewCase: func() interface{} { return &C16Case{} }, Gen: genC16, Check: checkC16})
}

func TestC16(t *testing.T) { RunProperty(t, "C16") }

// FuzzC16: raw bytes; a value is compared whenever both references accept, an error is
// required whenever both reject, and nothing may panic.
func FuzzC16(f *testing.F) {
	for _, s := range []string{`{"a":[1,2.5,"x"],"b":null}`, `[true,false]`, `"\u00e9\n"`, `{"a":{"a":1,"a":2}}`, "[1\n,2]", `[01]`, `"\/"`, `{"k" : 1e5}`, `[1,]`, `{"a"}`, ` [ ] `, `-0.0`, `"\ud800"`} {
		f.Add([]byte(s))
	}
	f.Fuzz(func(t *testing.T, b []byte) {
		if len(b) > 120 {
			return
		}
		if err := checkJSONDoc(string(b), false, nil); err != nil {
			fuzzFail(t, "C16", &C16Case{Doc: b, Subset: false}, err)
		}
	})
}
