package harness

import (
	"bytes"
	"fmt"
	"strings"
	"testing"

	"github.com/opsidian/parsley/parsley"
	"github.com/opsidian/parsley/text"
	"pgregory.net/rapid"
)

// C11Case: a set of files (possibly none) by content.
type C11Case struct {
	Files   [][]byte `json:"files"`
	Beyond  int      `json:"beyond"`            // how many positions past the last file are probed
	Order   []int    `json:"order,omitempty"`   // further global positions (modulo the used range) looked up in this order
	ViaDisk bool     `json:"viaDisk,omitempty"` // the files are written to disk and loaded with text.ReadFile
	// Big > 0 (implies ViaDisk): the first file starts with Big bytes of filler (an LF every 97 bytes)
	// followed by a CRLF: Big = 2^k - 1 puts the CR on the last byte of a 2^k block
	Big int `json:"big,omitempty"`
	// BigOneLine: the filler has no line feeds at all (one line longer than any line buffer)
	BigOneLine bool `json:"bigOneLine,omitempty"`
	// ZeroValue: every empty file of the case is a zero-value text.File (not made by a constructor):
	// a valid empty file without a name
	ZeroValue bool `json:"zeroValue,omitempty"`
	// Names: how file i is called (kind Names[i % len], see fileNameKind: unnamed, ./file0, d/../file0,
	// ...; for a file loaded from disk: how its path is spelled). A location names the file the way
	// the caller named it.
	Names []int `json:"names,omitempty"`
	// Readers: a text.Reader is created for every file once the set is complete (what every parse
	// does first): creating a reader reads from the file, it does not change it
	Readers bool `json:"readers,omitempty"`
}

func (c *C11Case) Describe() string { return fmt.Sprintf("files=%q beyond=%d", c.Files, c.Beyond) }

func genC11(t *rapid.T) interface{} {
	c := &C11Case{Files: [][]byte{}, Beyond: rapid.IntRange(1, 6).Draw(t, "beyond")}
	nf := rapid.IntRange(0, 5).Draw(t, "nf")
	for i := 0; i < nf; i++ {
		n := rapid.IntRange(0, 8).Draw(t, "len")
		b := []byte{}
		for j := 0; j < n; j++ {
			b = append(b, rapid.SampledFrom([]string{"\n", "\r", "\r\n", "a", "b", " ", "é", "\n\n", "\r\r\n", "x", "\n", "\r\n", "\u2028", "\u2029", "\u0085", "\v", "\f", "\t", "\ufeff", "€", "\xff"}).Draw(t, "piece")...)
		}
		if rapid.IntRange(0, 11).Draw(t, "bom") == 3 {
			b = append([]byte("\xef\xbb\xbf"), b...) // a byte order mark is content like any other
		}
		c.Files = append(c.Files, b)
	}
	c.ViaDisk = rapid.IntRange(0, 7).Draw(t, "viaDisk") == 5
	c.ZeroValue = rapid.IntRange(0, 3).Draw(t, "zeroValue") == 0
	if nf > 0 && rapid.IntRange(0, 40).Draw(t, "big") == 9 {
		k := rapid.IntRange(12, 17).Draw(t, "bigExp")
		c.Big = 1<<uint(k) - 1 + rapid.SampledFrom([]int{0, 0, 0, -1, 1}).Draw(t, "bigOff")
		c.ViaDisk = rapid.IntRange(0, 3).Draw(t, "bigDisk") > 0
		c.BigOneLine = rapid.IntRange(0, 2).Draw(t, "bigOneLine") == 0
	}
	c.Readers = rapid.IntRange(0, 2).Draw(t, "readers") == 0
	if rapid.IntRange(0, 2).Draw(t, "named") == 0 {
		c.Names = rapid.SliceOfN(rapid.IntRange(0, 8), 1, 3).Draw(t, "names")
	}
	k := rapid.IntRange(0, 12).Draw(t, "lookups")
	for i := 0; i < k; i++ {
		c.Order = append(c.Order, rapid.IntRange(0, 60).Draw(t, "lookup"))
	}
	return c
}

// locText renders a location the way the library does: the file name is left out when it is empty.
func locText(name string, line, col int) string {
	if name == "" {
		return fmt.Sprintf("%d:%d", line, col)
	}
	return fmt.Sprintf("%s:%d:%d", name, line, col)
}

func nearPowerOfTwo(o int) bool {
	for k := uint(10); k <= 18; k++ {
		if d := o - 1<<k; d >= -3 && d <= 3 {
			return true
		}
	}
	return false
}

func checkC11(ci interface{}, st *Stats) (err error) {
	c := ci.(*C11Case)
	defer func() {
		if r := recover(); r != nil {
			err = fmt.Errorf("panic: %v", r)
		}
	}()
	var files []*text.File
	var norm [][]byte
	fs := parsley.NewFileSet()
	// half of the cases add the files through the constructor, half one by one
	var pf []parsley.File
	var names []string
	if c.Big > 1<<18 {
		return Discard{"filler too long"}
	}
	for i, raw := range c.Files {
		if i == 0 && c.Big > 0 {
			filler := bytes.Repeat([]byte("x"), c.Big)
			for k := 96; k < len(filler) && !c.BigOneLine; k += 97 {
				filler[k] = '\n'
			}
			raw = append(append(filler, '\r', '\n'), raw...)
			st.Class("first file longer than 4 KiB with a CRLF at a block boundary")
			if c.BigOneLine {
				st.Class("... whose filler is one single line")
			}
		}
		name, kind := fmt.Sprintf("file%d", i), 0
		if len(c.Names) > 0 {
			kind = c.Names[i%len(c.Names)]
			name = strings.Replace(fileNameKind(kind), "f", name, 1)
			if kind != 0 {
				st.Class("file name other than a plain word (none, ./file, d/../file, d//file, file/, .)")
			}
		}
		f := newFileOwned(name, raw)
		if c.ViaDisk {
			df, dn, err := fileViaDiskSpelled(raw, kind%4)
			if err != nil {
				return Discard{"cannot write a temporary file"}
			}
			f, name = df, dn
		}
		if c.ZeroValue && len(raw) == 0 && !(i == 0 && c.Big > 0) {
			f, name = &text.File{}, ""
			st.Class("zero-value File in the set")
		}
		names = append(names, name)
		files = append(files, f)
		norm = append(norm, normCRLF(raw))
		pf = append(pf, f)
	}
	if len(c.Files)%2 == 0 {
		// the caller's slice has spare capacity and is reused afterwards: the set must not depend on it
		arg := append(make([]parsley.File, 0, len(pf)+2), pf...)
		fs = parsley.NewFileSet(arg...)
		decoy := text.NewFile("decoy", []byte("x\ny"))
		for i := range arg {
			arg[i] = decoy
		}
		_ = append(arg, decoy)
	} else {
		// one by one, with lookups between the additions: the first byte of every file added so far
		// resolves, the place of the file not yet added does not
		b := 1
		var sofar []int
		for i, f := range pf {
			for j, bj := range sofar {
				if got, want := fs.Position(parsley.Pos(bj)).String(), locText(names[j], 1, 1); got != want {
					return fmt.Errorf("after adding %d files, the first byte of file %d (position %d) renders as %s, want %s", i, j, bj, got, want)
				}
			}
			if got := fs.Position(parsley.Pos(b)).String(); got != "unknown" {
				return fmt.Errorf("position %d renders as %s before file %d was added", b, got, i)
			}
			fs.AddFile(f)
			sofar = append(sofar, b)
			b += len(norm[i]) + 1
		}
		if len(pf) > 1 {
			st.Class("files added one by one with lookups in between")
		}
	}
	if c.Readers {
		for i, f := range files {
			rd := text.NewReader(f)
			if got := rd.Remaining(f.Pos(0)); got != len(norm[i]) {
				return fmt.Errorf("file %d: a reader created on it has %d bytes remaining at the file's start, the normalised content has %d", i, got, len(norm[i]))
			}
		}
		st.Class("a reader was created on every file before the lookups")
	}
	base := 1
	var bases []int
	for i := range files {
		bases = append(bases, base)
		base += len(norm[i]) + 1
	}
	end := base // first position past the last file's EOF position (+ separator)
	if got := fs.Position(0).String(); got != "unknown" {
		return fmt.Errorf("position 0 renders as %q, want unknown", got)
	}
	if fs.Position(0) != parsley.NilPosition {
		return fmt.Errorf("position 0 is not NilPosition")
	}
	for p := end; p < end+c.Beyond; p++ {
		if got := fs.Position(parsley.Pos(p)).String(); got != "unknown" {
			return fmt.Errorf("position %d is past the last file (which ends at %d) but renders as %q", p, end-1, got)
		}
	}
	seen := map[int]string{}
	emptyFile, lineEdge := false, false
	// results are also kept and read only after all lookups were made: a translation that was
	// handed out must not change when another position is translated
	type kept struct {
		pos  parsley.Position
		want string
	}
	var keptAll []kept
	for i := range files {
		if files[i].Len() != len(norm[i]) {
			return fmt.Errorf("file %d: Len() = %d, normalised content has %d bytes", i, files[i].Len(), len(norm[i]))
		}
		if len(norm[i]) == 0 {
			emptyFile = true
		}
		for o := 0; o <= len(norm[i]); o++ {
			if n := len(norm[i]); n > 4096 && o > 64 && o < n-64 && o%997 != 0 && !nearPowerOfTwo(o) {
				continue // long files: both ends, every 997th offset and the surroundings of every 2^k
			}
			l, col := lineCol(string(norm[i]), o)
			want := locText(names[i], l, col)
			gp := bases[i] + o
			p1 := fs.Position(parsley.Pos(gp))
			if got := p1.String(); got != want {
				return fmt.Errorf("file %d offset %d (global position %d) renders as %s, want %s", i, o, gp, got, want)
			}
			keptAll = append(keptAll, kept{p1, want}, kept{files[i].Position(o), want})
			if files[i].Pos(o) != parsley.Pos(gp) {
				return fmt.Errorf("file %d: Pos(%d) = %d, want %d", i, o, files[i].Pos(o), gp)
			}
			if got := files[i].Position(o).String(); got != want {
				return fmt.Errorf("file %d: Position(%d) = %s, want %s", i, o, got, want)
			}
			if who, dup := seen[gp]; dup {
				return fmt.Errorf("global position %d is used by %s and by file %d offset %d", gp, who, i, o)
			}
			seen[gp] = fmt.Sprintf("file %d offset %d", i, o)
			if col == 1 || o == len(norm[i]) || norm[i][o] == '\n' {
				lineEdge = true
			}
		}
		// one past a file's EOF position is the unused separator, or the end
		sep := bases[i] + len(norm[i]) + 1
		if i+1 < len(files) && sep != bases[i+1] {
			return fmt.Errorf("model error")
		}
		if got := files[i].Position(len(norm[i]) + 1); got != parsley.NilPosition {
			return fmt.Errorf("file %d: Position(len+1) = %v, want the nil position", i, got)
		}
	}
	for _, k := range keptAll {
		if got := k.pos.String(); got != k.want {
			return fmt.Errorf("a position that rendered as %s reads %s after further lookups were made", k.want, got)
		}
	}
	// lookups in arbitrary order (a table built lazily or a remembered last line must not matter)
	if end > 1 {
		for _, o := range c.Order {
			gp := 1 + o%(end-1)
			want := "unknown"
			for i := range files {
				if gp >= bases[i] && gp <= bases[i]+len(norm[i]) {
					l, col := lineCol(string(norm[i]), gp-bases[i])
					want = locText(names[i], l, col)
					if got := files[i].Position(gp - bases[i]).String(); got != want {
						return fmt.Errorf("file %d: Position(%d) looked up out of order = %s, want %s", i, gp-bases[i], got, want)
					}
				}
			}
			if got := fs.Position(parsley.Pos(gp)).String(); got != want {
				return fmt.Errorf("global position %d looked up out of order renders as %s, want %s", gp, got, want)
			}
		}
	}
	// ErrorWithPosition renders through the same mapping
	for i := range files {
		pos := parsley.Pos(bases[i] + len(norm[i])/2)
		l, col := lineCol(string(norm[i]), len(norm[i])/2)
		want := "boom at " + locText(names[i], l, col)
		if got := fs.ErrorWithPosition(parsley.NewErrorf(pos, "boom")).Error(); got != want {
			return fmt.Errorf("ErrorWithPosition at %d = %q, want %q", pos, got, want)
		}
	}
	if got := fs.ErrorWithPosition(parsley.NewErrorf(parsley.Pos(end), "boom")).Error(); got != "boom" {
		return fmt.Errorf("ErrorWithPosition past the last file = %q, want the bare message", got)
	}
	if c.ViaDisk {
		st.Class("files loaded with text.ReadFile")
	}
	switch len(files) {
	case 0:
		st.Class("empty file set")
	case 1:
		st.Class("one file")
	default:
		st.Class("several files")
	}
	if emptyFile {
		st.Class("contains an empty file")
	}
	if len(files) >= 2 && (emptyFile || lineEdge) {
		st.NonTrivial()
	}
	return nil
}

func init() {
	register(&Property{ID: "C11", NewCase: func() interface{} { return &C11Case{} }, Gen: genC11, Check: checkC11})
}

func TestC11(t *testing.T) { RunProperty(t, "C11") }
