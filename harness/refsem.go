package harness

import (
	"fmt"
	"sort"
	"strings"

	"github.com/opsidian/parsley/ast"
	"github.com/opsidian/parsley/parsley"
)

// Reference semantics of a grammar, written from the combinator documentation and
// independent of the library's search strategy (DESIGN.md 3.2).

type bits uint64

// Ref is the span-level meaning: T[nt][i] = set of end offsets of rule nt started at i.
type Ref struct {
	g    *Grammar
	in   string
	n    int
	T    [][]bits
	memo map[[2]int]bits
}

func maxLayer(g *Grammar) int {
	m := 0
	for _, l := range g.Layer {
		if l > m {
			m = l
		}
	}
	return m
}

// NewRef computes the least fixpoint layer by layer.
func NewRef(g *Grammar, in string) *Ref {
	if len(in) > 62 {
		panic("reference: input too long for the bitset")
	}
	g.exprs()
	r := &Ref{g: g, in: in, n: len(in)}
	r.T = make([][]bits, len(g.Rules))
	for i := range r.T {
		r.T[i] = make([]bits, r.n+1)
	}
	for l := 0; l <= maxLayer(g); l++ {
		for {
			changed := false
			r.memo = map[[2]int]bits{}
			for nt, rule := range g.Rules {
				if g.Layer[nt] != l {
					continue
				}
				for i := 0; i <= r.n; i++ {
					v := r.ends(rule, i)
					if v != r.T[nt][i] {
						if v&r.T[nt][i] != r.T[nt][i] {
							panic("reference: non-monotone iteration (grammar not stratified)")
						}
						r.T[nt][i] = v
						changed = true
					}
				}
			}
			if !changed {
				break
			}
		}
	}
	r.memo = map[[2]int]bits{}
	return r
}

func (r *Ref) ends(e *Expr, i int) bits {
	key := [2]int{e.ID, i}
	if v, ok := r.memo[key]; ok {
		return v
	}
	var out bits
	switch e.K {
	case KTerm:
		if i < r.n && r.in[i] == e.ch() {
			out = 1 << uint(i+1)
		}
	case KEmpty:
		out = 1 << uint(i)
	case KRef:
		out = r.T[e.NT][i]
	case KAny:
		for _, k := range e.Kids {
			out |= r.ends(k, i)
		}
	case KChoice:
		for _, k := range e.Kids {
			if v := r.ends(k, i); v != 0 {
				out = v
				break
			}
		}
	case KOpt:
		out = r.ends(e.Kids[0], i) | 1<<uint(i)
	case KSuppress, KSingle:
		out = r.ends(e.Kids[0], i) // (Single with an operand that never returns a result and an error together)
	case KLTrim:
		// the whole whitespace run is skipped; the match counts only when the run satisfies the mode
		if j, ok, _, _ := judgeRun([]byte(r.in), i, e.Mode); ok {
			out = r.ends(e.Kids[0], j)
		}
	case KRTrim:
		for _, k := range bitsList(r.ends(e.Kids[0], i)) {
			if j, ok, _, _ := judgeRun([]byte(r.in), k, e.Mode); ok {
				out |= 1 << uint(j)
			}
		}
	default:
		out = r.seqEnds(e, 0, i)
	}
	r.memo[key] = out
	return out
}

func seqLookup(e *Expr, d int) *Expr {
	switch e.K {
	case KSeqOf, KSeqTry, KSeqFirstOrAll:
		if d < len(e.Kids) {
			return e.Kids[d]
		}
		return nil
	case KMany, KMany1:
		return e.Kids[0]
	case KSepBy, KSepBy1:
		return e.Kids[d%2]
	}
	panic("not a sequence")
}

func seqLenOK(e *Expr, d int) bool {
	l := len(e.Kids)
	switch e.K {
	case KSeqOf:
		return d == l
	case KSeqTry:
		return d > 0 && d <= l
	case KSeqFirstOrAll:
		return d == 1 || d == l
	case KMany:
		return true
	case KMany1:
		return d > 0
	case KSepBy:
		return d == 0 || d%2 == 1
	case KSepBy1:
		return d%2 == 1
	}
	panic("not a sequence")
}

func seqToken(e *Expr) string {
	if e.Tok != "" {
		return e.Tok
	}
	switch e.K {
	case KMany, KMany1:
		return "MANY"
	case KSepBy, KSepBy1:
		return "SEP_BY"
	}
	return "SEQ"
}

// seqEnds follows the documented rule of combinator.Seq: a path is emitted exactly where
// the next element has no result (or there is none) and lenCheck(length) holds.
func (r *Ref) seqEnds(e *Expr, d int, i int) bits {
	if d > 200 {
		panic("reference: unbounded repetition (nullable operand)")
	}
	next := seqLookup(e, d)
	var res bits
	if next != nil {
		res = r.ends(next, i)
	}
	if res == 0 {
		if seqLenOK(e, d) {
			return 1 << uint(i)
		}
		return 0
	}
	var out bits
	for j := 0; j <= r.n; j++ {
		if res&(1<<uint(j)) != 0 {
			out |= r.seqEnds(e, d+1, j)
		}
	}
	return out
}

func bitsList(b bits) []int {
	var l []int
	for j := 0; j < 64; j++ {
		if b&(1<<uint(j)) != 0 {
			l = append(l, j)
		}
	}
	return l
}

// ---------- tree level ----------

// TreeSet maps a rendered tree to its end offset.
type TreeSet map[string]int

// TreeRef enumerates, as a least fixpoint over sets of rendered trees, every distinct tree
// of every rule at every offset. Capped: when the cap is hit the grammar is treated as
// unboundedly ambiguous and only span-level completeness plus validity is required.
type TreeRef struct {
	r      *Ref
	T      [][]TreeSet
	cap    int
	Capped bool
	memo   map[[2]int]TreeSet
}

func NewTreeRef(r *Ref, cap int, maxRounds int) *TreeRef {
	t := &TreeRef{r: r, cap: cap}
	g := r.g
	t.T = make([][]TreeSet, len(g.Rules))
	for i := range t.T {
		t.T[i] = make([]TreeSet, r.n+1)
		for j := range t.T[i] {
			t.T[i][j] = TreeSet{}
		}
	}
	for l := 0; l <= maxLayer(g) && !t.Capped; l++ {
		for round := 0; ; round++ {
			if round > maxRounds {
				t.Capped = true
				break
			}
			changed := false
			t.memo = map[[2]int]TreeSet{}
			for nt, rule := range g.Rules {
				if g.Layer[nt] != l {
					continue
				}
				for i := 0; i <= r.n; i++ {
					v := t.trees(rule, i)
					if len(v) > t.cap {
						t.Capped = true
					}
					if len(v) != len(t.T[nt][i]) {
						t.T[nt][i] = v
						changed = true
					}
				}
			}
			if !changed || t.Capped {
				break
			}
		}
	}
	t.memo = map[[2]int]TreeSet{}
	return t
}

func (t *TreeRef) trees(e *Expr, i int) TreeSet {
	key := [2]int{e.ID, i}
	if v, ok := t.memo[key]; ok {
		return v
	}
	out := TreeSet{}
	switch e.K {
	case KTerm:
		if i < t.r.n && t.r.in[i] == e.ch() {
			out[fmt.Sprintf("%s@%d", e.Ch, i)] = i + 1
		}
	case KEmpty:
		out[fmt.Sprintf("EMPTY@%d", i)] = i
	case KRef:
		out = t.T[e.NT][i]
	case KAny:
		for _, k := range e.Kids {
			for s, j := range t.trees(k, i) {
				out[s] = j
			}
		}
	case KChoice:
		for _, k := range e.Kids {
			// first match is decided on the span-level (complete) semantics
			if t.r.ends(k, i) != 0 {
				out = t.trees(k, i)
				break
			}
		}
	case KOpt:
		for s, j := range t.trees(e.Kids[0], i) {
			out[s] = j
		}
		out[fmt.Sprintf("EMPTY@%d", i)] = i
	case KSuppress:
		out = t.trees(e.Kids[0], i)
	case KLTrim, KRTrim, KSingle:
		t.Capped = true // trimming and Single are modelled on the span level only
	default:
		t.seqTrees(e, 0, i, i, nil, out)
	}
	if len(out) > t.cap {
		t.Capped = true
	}
	t.memo[key] = out
	return out
}

func (t *TreeRef) seqTrees(e *Expr, d int, start int, i int, path []string, out TreeSet) {
	if t.Capped {
		return
	}
	next := seqLookup(e, d)
	full := false
	if next != nil {
		full = t.r.ends(next, i) != 0
	}
	if !full {
		if seqLenOK(e, d) {
			if e.RS && d == 1 {
				out[path[0]] = i // ReturnSingle: the one element itself
			} else {
				out[fmt.Sprintf("%s@%d..%d[%s]", seqToken(e), start, i, strings.Join(path, " "))] = i
			}
		}
		return
	}
	for s, j := range t.trees(next, i) {
		np := append(append([]string{}, path...), s)
		t.seqTrees(e, d+1, start, j, np, out)
		if len(out) > t.cap {
			t.Capped = true
			return
		}
	}
}

func sortedKeys(m TreeSet) []string {
	l := make([]string, 0, len(m))
	for k := range m {
		l = append(l, k)
	}
	sort.Strings(l)
	return l
}

// ---------- validity of one returned tree ----------

// Validator decides whether a node returned by the library is a derivation tree of an
// expression started at a given offset (least fixpoint: a check that is in progress for the
// same (expression, node, offset) counts as false). base is the file's base position.
type Validator struct {
	r    *Ref
	base int
	memo map[vkey]int8 // 0 unknown, 1 in progress, 2 true
}

type vkey struct {
	e     int
	n     parsley.Node
	start int
}

func NewValidator(r *Ref, base int) *Validator {
	return &Validator{r: r, base: base, memo: map[vkey]int8{}}
}

func hashable(n parsley.Node) bool {
	switch n.(type) {
	case ast.NodeList:
		return false
	}
	return true
}

// Valid reports whether n is a derivation of e starting at offset start; the end offset of
// the derivation is n.ReaderPos()-base.
func (v *Validator) Valid(e *Expr, n parsley.Node, start int) bool {
	if n == nil || !hashable(n) {
		return false
	}
	key := vkey{e.ID, n, start}
	switch v.memo[key] {
	case 1:
		return false
	case 2:
		return true
	}
	v.memo[key] = 1
	ok := v.valid(e, n, start)
	if ok {
		v.memo[key] = 2
	} else {
		// a negative answer may depend on an in-progress ancestor, so it is not cached
		delete(v.memo, key)
	}
	return ok
}

func (v *Validator) valid(e *Expr, n parsley.Node, start int) bool {
	in := v.r.in
	switch e.K {
	case KTerm:
		t, ok := n.(*ast.TerminalNode)
		return ok && start < len(in) && in[start] == e.ch() && t.Token() == e.Ch &&
			int(t.Pos())-v.base == start && int(t.ReaderPos())-v.base == start+1 && t.Value() == rune(e.ch())
	case KEmpty:
		en, ok := n.(ast.EmptyNode)
		return ok && int(en.Pos())-v.base == start
	case KRef:
		return v.Valid(v.r.g.Rules[e.NT], n, start)
	case KAny:
		for _, k := range e.Kids {
			if v.Valid(k, n, start) {
				return true
			}
		}
		return false
	case KChoice:
		for _, k := range e.Kids {
			if v.r.ends(k, start) != 0 {
				return v.Valid(k, n, start)
			}
		}
		return false
	case KOpt:
		if en, ok := n.(ast.EmptyNode); ok && int(en.Pos())-v.base == start {
			return true
		}
		return v.Valid(e.Kids[0], n, start)
	case KSuppress:
		return v.Valid(e.Kids[0], n, start)
	}
	if !isSeqLike(e.K) {
		return false
	}
	if e.RS {
		// ReturnSingle: a path of exactly one element is that element's node
		if first := seqLookup(e, 0); first != nil && seqLenOK(e, 1) && v.Valid(first, n, start) {
			cur := int(n.ReaderPos()) - v.base
			if next := seqLookup(e, 1); cur >= start && cur <= len(in) && (next == nil || v.r.ends(next, cur) == 0) {
				return true
			}
		}
	}
	nt, ok := n.(*ast.NonTerminalNode)
	if !ok || nt.Token() != seqToken(e) || int(nt.Pos())-v.base != start {
		return false
	}
	if e.RS && len(nt.Children()) == 1 {
		return false
	}
	cur := start
	kids := nt.Children()
	for d, c := range kids {
		next := seqLookup(e, d)
		if next == nil || !v.Valid(next, c, cur) {
			return false
		}
		cur = int(c.ReaderPos()) - v.base
		if cur < start || cur > len(in) {
			return false
		}
	}
	d := len(kids)
	if next := seqLookup(e, d); next != nil && v.r.ends(next, cur) != 0 {
		return false // the path could be extended: not the longest possible match
	}
	return seqLenOK(e, d) && int(nt.ReaderPos())-v.base == cur
}
