package harness

import (
	"fmt"
	"strings"
	"testing"

	"github.com/opsidian/parsley/ast"
	"github.com/opsidian/parsley/ast/interpreter"
	"github.com/opsidian/parsley/combinator"
	"github.com/opsidian/parsley/data"
	"github.com/opsidian/parsley/parser"
	"github.com/opsidian/parsley/parsley"
	"github.com/opsidian/parsley/text"
	"github.com/opsidian/parsley/text/terminal"
	"pgregory.net/rapid"
)

// C07: a returned result is never modified afterwards (history invariant over snapshots of
// every node / list object any parser returned).

func endsOf(ts TreeSet) bits {
	var b bits
	for _, e := range ts {
		if e >= 0 && e < 64 {
			b |= 1 << uint(e)
		}
	}
	return b
}

// runC07 returns the post-return modifications and re-ask disagreements it observed.
// c07Hard collects the differences that cannot be the known finding KF-1, whatever the ablation
// says: a returned object whose rendering changed in anything but end positions moved forward
// over whitespace.
type c07Diffs struct {
	all  []string
	hard []string
}

func runC07(c *GCase, clone bool, st *Stats) (diffs []string, err error) {
	d, err := runC07x(c, clone, st)
	if d == nil {
		return nil, err
	}
	return d.all, err
}

func runC07x(c *GCase, clone bool, st *Stats) (dd *c07Diffs, err error) {
	dd = &c07Diffs{}
	var diffs []string
	defer func() { dd.all = diffs }()
	g, in := c.G, c.In
	trims := hasKind(g, KLTrim, KRTrim)
	// Single drops a result that arrives together with an error; Optional passes its operand's error
	// on, and whether that operand failed (error) or was curtailed (no error) depends on the calling
	// context: with Single the fresh-context comparison below would compare two legitimate answers
	single := hasKind(g, KSingle)
	probe := NewProbe()
	probe.Budget = 8000
	probe.Snap = true
	// without left recursion (and without trimming, whose whitespace errors depend on who asks
	// first) a memoized parser has one answer per position - result and error - whoever asks
	lrc := classifyLR(g)
	probe.TrackAnswers = !lrc.Any && !trims && !clone
	// sequence-like nodes are bound to the library's own Array interpreter: evaluating a returned
	// tree (twice) is part of the history after which every returned node must read the same
	b := Build(g, BuildOpts{MemoRules: c.memoRules(), Probe: probe, CloneTrimOperand: clone, Interp: interpreter.Array()})
	ctx, f := NewCtx(in)
	root, _, berr := parseGuarded(b.NT[0], ctx, data.EmptyIntMap, f.Pos(0))
	if berr != nil {
		return dd, fmt.Errorf("%v", berr)
	}
	for _, alt := range alternatives(root) {
		for round := 0; round < 2; round++ {
			func() {
				defer func() { _ = recover() }() // a node without value or interpreter may refuse; it must not be changed
				_, _ = parsley.EvaluateNode(nil, alt)
			}()
		}
	}
	compare := func(what string) {
		for _, s := range probe.cpSnaps {
			if now := fmt.Sprint(setElems(s.set)); now != s.repr {
				msg := fmt.Sprintf("%s: the set of curtailed parsers returned by %s at position %d changed after it was returned: was %s, now %s", what, s.who, s.pos, s.repr, now)
				diffs = append(diffs, msg)
				dd.hard = append(dd.hard, msg)
			}
		}
		for _, s := range probe.snaps {
			if now := RenderResult(s.node, 1); now != s.repr {
				msg := fmt.Sprintf("%s: the result returned by %s changed after it was returned:\n was %s\n now %s", what, s.who, s.repr, now)
				diffs = append(diffs, msg)
				sh, en := shapeAndEnds(s.node, 1)
				kf1 := sh == s.shape && len(en) == len(s.ends)
				for i := 0; kf1 && i < len(en); i++ {
					if en[i] < s.ends[i] || s.ends[i] < 0 || en[i] > len(in) || strings.Trim(in[s.ends[i]:en[i]], " \t\n\f") != "" {
						kf1 = false
					}
				}
				if !kf1 {
					dd.hard = append(dd.hard, msg)
				}
			}
		}
	}
	// the public entry point with the rule itself as root (no Sentence): whatever Parse does with the
	// list of alternatives it gets, the list belongs to the parsers that returned it
	func() {
		defer func() { _ = recover() }()
		_, _ = parsley.Parse(ctx, b.NT[0])
	}()
	// and once more on a context with both passes enabled (no interpreter here transforms or checks
	// anything: the passes have nothing to do to the nodes they walk)
	func() {
		defer func() { _ = recover() }()
		ctxT, _ := NewCtx(in)
		ctxT.EnableTransformation()
		ctxT.EnableStaticCheck()
		_, _ = parsley.Parse(ctxT, b.NT[0])
	}()
	compare("after the parse")
	shared := false
	for _, v := range probe.asks {
		if v >= 2 {
			shared = true
		}
	}
	// ask every rule again at every position: same context twice, then a fresh context
	probe.Snap = false
	for nt := range g.Rules {
		for i := 0; i <= len(in); i++ {
			n1, _, _ := parseGuarded(b.NT[nt], ctx, data.EmptyIntMap, f.Pos(i))
			r1 := ResultSet(n1, 1)
			n2, _, _ := parseGuarded(b.NT[nt], ctx, data.EmptyIntMap, f.Pos(i))
			r2 := ResultSet(n2, 1)
			ctx3, f3 := NewCtx(in)
			n3, _, _ := parseGuarded(b.NT[nt], ctx3, data.EmptyIntMap, f3.Pos(i))
			r3 := ResultSet(n3, 1)
			k1, k2 := fmt.Sprint(sortedKeys(r1)), fmt.Sprint(sortedKeys(r2))
			if k1 != k2 {
				diffs = append(diffs, fmt.Sprintf("asking N%d again at offset %d in the same context gives a different answer:\n first %s\n again %s", nt, i, k1, k2))
			}
			// a fresh context must reach the same end offsets (the tree sets may differ in how far
			// an unboundedly ambiguous cycle was unrolled, which depends on the calling context)
			// (only where C01 gives the grammar a meaning: with LeftTrim/RightTrim a parser can return
			// a node together with a whitespace error, and what a fresh context returns is not
			// something C07 speaks about)
			if e1, e3 := endsOf(r1), endsOf(r3); e1 != e3 && !trims && !single {
				diffs = append(diffs, fmt.Sprintf("N%d at offset %d reaches ends %v when asked again after the parse but %v in a fresh context", nt, i, bitsList(e1), bitsList(e3)))
			}
		}
	}
	compare("after asking every rule again")
	// asked again in another order: on a context of its own every rule is asked at every offset
	// front to back, then back to front (by then the context has seen failures further right, and
	// the cache has been written by other askers). Whether there is a result and which error comes
	// with the answer is the same both times. (Not with trimming or Single: what those return next
	// to an error depends on who asked first.)
	if !trims && !single && !clone {
		ctxO, fO := NewCtx(in)
		type ans struct {
			has bool
			err string
		}
		ask := func(nt, i int) (ans, bool) {
			n, perr, berr := parseGuarded(b.NT[nt], ctxO, data.EmptyIntMap, fO.Pos(i))
			if berr != nil {
				return ans{}, false
			}
			a := ans{has: n != nil, err: "<nil>"}
			if perr != nil {
				a.err = fmt.Sprintf("%s @%d", perr.Error(), int(perr.Pos())-1)
			}
			return a, true
		}
		memoR := c.memoRules()
		first := map[[2]int]ans{}
		for nt := range g.Rules {
			for i := 0; i <= len(in); i++ {
				if a, ok := ask(nt, i); ok {
					first[[2]int{nt, i}] = a
				}
			}
		}
		for nt := len(g.Rules) - 1; nt >= 0; nt-- {
			for i := len(in); i >= 0; i-- {
				a1, ok1 := first[[2]int{nt, i}]
				a2, ok2 := ask(nt, i)
				if ok1 && ok2 && a1 != a2 && memoR[nt] {
					msg := fmt.Sprintf("asking the memoized N%d at offset %d again (same context, after the other rules had been asked) gives another answer: first result=%v error=%s, then result=%v error=%s", nt, i, a1.has, a1.err, a2.has, a2.err)
					diffs = append(diffs, msg)
					dd.hard = append(dd.hard, msg)
				}
			}
		}
	}
	if probe.AnswerDiff != "" {
		diffs = append(diffs, probe.AnswerDiff)
		dd.hard = append(dd.hard, probe.AnswerDiff)
	}
	if st != nil {
		st.ClassN("snapshots", len(probe.snaps))
		if shared {
			st.Class("a memoized result was handed to >= 2 consumers")
		}
		multi := false
		for _, s := range probe.snaps {
			if len(s.repr) > 0 && s.repr[0] == '{' && len(s.who) > 2 && s.who[:2] == "M:" {
				multi = true
			}
		}
		if shared && multi {
			st.NonTrivial()
			st.Class("cached list with >= 2 alternatives and >= 2 consumers")
		}
	}
	return dd, nil
}

// renderFull renders a result with everything C07 names: token, value, children, start, end and
// list membership (RenderNode leaves the value of a literal out).
func renderFull(n parsley.Node, base int) string {
	switch v := n.(type) {
	case nil:
		return "<nil>"
	case ast.NodeList:
		parts := make([]string, len(v))
		for i, c := range v {
			parts[i] = renderFull(c, base)
		}
		return "{" + strings.Join(parts, " | ") + "}"
	case ast.EmptyNode:
		return fmt.Sprintf("EMPTY@%d", int(v.Pos())-base)
	case parsley.NonTerminalNode:
		parts := make([]string, len(v.Children()))
		for i, c := range v.Children() {
			parts[i] = renderFull(c, base)
		}
		return fmt.Sprintf("%s@%d..%d[%s]", v.Token(), int(v.Pos())-base, int(v.ReaderPos())-base, strings.Join(parts, " "))
	case parsley.LiteralNode:
		return fmt.Sprintf("%s=%#v@%d..%d", v.Token(), v.Value(), int(v.Pos())-base, int(v.ReaderPos())-base)
	}
	return fmt.Sprintf("%s(%T)@%d..%d", n.Token(), n, int(n.Pos())-base, int(n.ReaderPos())-base)
}

// sharedTerminalPhase: every terminal parser of the library is used by two alternatives at one
// position, bare in the first and right-trimmed in the second (Any(SeqOf(t, ' ', ' ', '('),
// SeqOf(RightTrim(t), '('))). No Memoize is involved, so nothing can excuse a change of the
// node the first alternative was handed: a terminal must not hand the same node object out twice
// and let the second consumer's RightTrim move it.
func sharedTerminalPhase(ws string, pick int) (err error) {
	defer func() {
		if r := recover(); r != nil {
			err = fmt.Errorf("panic: %v", r)
		}
	}()
	terms := []struct {
		name, text string
		p          parsley.Parser
	}{
		{"Rune", "(", terminal.Rune('(')},
		{"Op", "==", terminal.Op("==")},
		{"Word", "let", terminal.Word("w", "let", "let")},
		{"Integer", "42", terminal.Integer("i")},
		{"Float", "2.5", terminal.Float("f")},
		{"String", `"s\n"`, terminal.String("s", false)},
		{"Char", "'c'", terminal.Char("c")},
		{"Bool", "true", terminal.Bool("b", "true", "false")},
		{"Nil", "nil", terminal.Nil("n", "nil")},
		{"TimeDuration", "1h", terminal.TimeDuration("d")},
		{"Regexp", "abc", terminal.Regexp("r", "ID", "id", "[a-z]+", 0)},
	}
	if ws == "" || strings.Trim(ws, " \t\n\f") != "" {
		ws = "  "
	}
	mode := text.WsSpaces
	if strings.ContainsAny(ws, "\n\f") {
		mode = text.WsSpacesNl
	}
	for _, tm := range terms[pick%len(terms) : pick%len(terms)+1] {
		type snapT struct {
			node parsley.Node
			repr string
		}
		var snaps []snapT
		t := tm.p
		snapped := parser.Func(func(ctx *parsley.Context, l data.IntMap, pos parsley.Pos) (parsley.Node, data.IntSet, parsley.Error) {
			n, cp, e := t.Parse(ctx, l, pos)
			if n != nil {
				snaps = append(snaps, snapT{n, renderFull(n, 1)})
			}
			return n, cp, e
		})
		explicit := []parsley.Parser{snapped}
		for _, b := range []byte(ws) {
			explicit = append(explicit, terminal.Rune(rune(b)))
		}
		explicit = append(explicit, terminal.Rune('('))
		g := combinator.Any(
			combinator.SeqOf(explicit...),
			// (RightTrim moves the end of the node IT was handed: that node is not watched)
			combinator.SeqOf(text.RightTrim(t, mode), terminal.Rune('(')),
		)
		for round := 0; round < 2; round++ { // the second round: the same grammar value on a second input
			src := tm.text + ws + "("
			if round == 1 {
				src = tm.text + "(" // same token at the same place, other whitespace behind it
			}
			snaps = snaps[:0]
			ctx, f := NewCtx(src)
			res, _, _ := g.Parse(ctx, data.EmptyIntMap, f.Pos(0))
			want := 2 - round
			if got := len(alternatives(res)); got != want {
				return fmt.Errorf("terminal %s used bare and right-trimmed at one position on %q: %d readings, want %d", tm.name, src, got, want)
			}
			for _, s := range snaps {
				if now := renderFull(s.node, 1); now != s.repr {
					return fmt.Errorf("terminal %s used by two alternatives at one position (the second one right-trimmed) on %q: the node handed to a consumer changed afterwards:\n was %s\n now %s", tm.name, src, s.repr, now)
				}
			}
		}
	}
	// one sequence object that ends with End(), reached twice in one parse (at two positions), the
	// first result still held by the enclosing alternative: rest = SeqOf(word, End());
	// Any(SeqOf('a', rest), rest) on "ab"
	for variant := 0; variant < 2; variant++ {
		word := terminal.Regexp("w", "WORD", "word", "[a-z]+", 0)
		var rest parsley.Parser = combinator.SeqOf(word, parser.End()).Token("REST")
		if variant == 1 {
			rest = combinator.Sentence(word)
		}
		type snapT struct {
			node parsley.Node
			repr string
		}
		var snaps []snapT
		r := rest
		snapped := parser.Func(func(ctx *parsley.Context, l data.IntMap, pos parsley.Pos) (parsley.Node, data.IntSet, parsley.Error) {
			n, cp, e := r.Parse(ctx, l, pos)
			if n != nil {
				snaps = append(snaps, snapT{n, renderFull(n, 1)})
			}
			return n, cp, e
		})
		g := combinator.Any(combinator.SeqOf(terminal.Rune('a'), snapped), snapped)
		for _, src := range []string{"a" + strings.Repeat("b", pick%4), "ab"} {
			snaps = snaps[:0]
			ctx, f := NewCtx(src)
			_, _, _ = g.Parse(ctx, data.EmptyIntMap, f.Pos(0))
			for _, s := range snaps {
				if now := renderFull(s.node, 1); now != s.repr {
					return fmt.Errorf("a sequence ending with End() reached twice in one parse of %q: its first result changed afterwards:\n was %s\n now %s", src, s.repr, now)
				}
			}
		}
	}
	return nil
}

// runC07Tokens is the literal workload: a sequence of trimmed literal tokens (strings with
// escapes, integers, words, ...), each behind its own Memoize. Every node a token parser returns is
// rendered with its value at return time, again after the whole sequence was parsed and evaluated
// twice, and again after every memoized token parser was asked once more at every position it had
// been asked at.
func runC07Tokens(c *C10Case, st *Stats) (err error) {
	if len(c.Toks) == 0 || len(c.Gaps) != len(c.Toks)+1 {
		return Discard{"malformed token case"}
	}
	defer func() {
		if r := recover(); r != nil {
			err = fmt.Errorf("panic: %v", r)
		}
	}()
	src := c.source()
	type snapT struct {
		node parsley.Node
		repr string
		who  string
	}
	var snaps []snapT
	type askT struct {
		p    parsley.Parser
		pos  parsley.Pos
		who  string
		repr string
	}
	var asked []askT
	seen := map[string]bool{}
	parsers := make([]parsley.Parser, len(c.Toks))
	for i, ts := range c.Toks {
		who := fmt.Sprintf("token %d (%q)", i, ts.Text)
		tp := tokParser(ts)
		inner := parser.Func(func(ctx *parsley.Context, l data.IntMap, pos parsley.Pos) (parsley.Node, data.IntSet, parsley.Error) {
			n, cp, e := tp.Parse(ctx, l, pos)
			if n != nil {
				snaps = append(snaps, snapT{n, renderFull(n, 1), who})
			}
			return n, cp, e
		})
		m := combinator.Memoize(inner)
		parsers[i] = parser.Func(func(ctx *parsley.Context, l data.IntMap, pos parsley.Pos) (parsley.Node, data.IntSet, parsley.Error) {
			n, cp, e := m.Parse(ctx, l, pos)
			key := fmt.Sprintf("%s@%d", who, pos)
			if !seen[key] {
				seen[key] = true
				asked = append(asked, askT{m, pos, who, renderFull(n, 1)})
			}
			return n, cp, e
		})
	}
	root := combinator.SeqOf(parsers...).Bind(concatInterpAny())
	ctx, f := NewCtx(src)
	res, _, _ := root.Parse(ctx, data.EmptyIntMap, f.Pos(0))
	for _, alt := range alternatives(res) {
		for round := 0; round < 2; round++ {
			func() {
				defer func() { _ = recover() }() // a node without interpreter refuses; it must not be changed
				_, _ = parsley.EvaluateNode(nil, alt)
			}()
		}
	}
	compare := func(when string) error {
		for _, s := range snaps {
			if now := renderFull(s.node, 1); now != s.repr {
				return fmt.Errorf("%s: the result returned by %s changed after it was returned:\n was %s\n now %s", when, s.who, s.repr, now)
			}
		}
		return nil
	}
	if err := compare("after the parse and two evaluations"); err != nil {
		return err
	}
	for _, a := range asked {
		n, _, _ := a.p.Parse(ctx, data.EmptyIntMap, a.pos)
		if now := renderFull(n, 1); now != a.repr {
			return fmt.Errorf("asking the memoized %s again at position %d gives another answer:\n first %s\n again %s", a.who, int(a.pos)-1, a.repr, now)
		}
	}
	if err := compare("after asking every memoized token again"); err != nil {
		return err
	}
	wsDrawn, pick := "", len(src)
	for i, g := range c.Gaps {
		pick += 7*len(g) + i
		if len(g) > len(wsDrawn) {
			wsDrawn = g
		}
	}
	for _, ts := range c.Toks {
		pick += 3*ts.Kind + len(ts.Text)
	}
	if err := sharedTerminalPhase(string(normCRLF([]byte(wsDrawn))), pick); err != nil {
		return err
	}
	st.Class("literal token workload")
	escapes := 0
	for _, ts := range c.Toks {
		if ts.Kind == 4 && (strings.Contains(ts.Text, "\\") || !isASCII(ts.Text)) {
			escapes++
		}
	}
	if len(snaps) >= 2 {
		st.NonTrivial()
	}
	if escapes >= 2 {
		st.Class("literal token workload with >= 2 string literals that need unquoting")
	}
	return nil
}

func checkC07(ci interface{}, st *Stats) error {
	c := ci.(*GCase)
	if c.Toks != nil {
		return runC07Tokens(c.Toks, st)
	}
	if c.G == nil {
		return Discard{"no grammar"}
	}
	c.G.number()
	hasRTrim := hasKind(c.G, KRTrim)
	if hasKind(c.G, KLTrim, KRTrim) {
		st.Class("grammar with LeftTrim/RightTrim")
	}
	dd, err := runC07x(c, false, st)
	if err != nil {
		return err
	}
	diffs := dd.all
	if len(diffs) == 0 {
		return nil
	}
	if len(dd.hard) > 0 {
		// more than an end position moved forward over whitespace: this cannot be KF-1, with or
		// without RightTrim in the grammar
		return fmt.Errorf("%s\n(%d differences in total, %d of them change more than an end position moved over whitespace)", dd.hard[0], len(diffs), len(dd.hard))
	}
	if !hasRTrim {
		return fmt.Errorf("%s\n(%d differences in total)", diffs[0], len(diffs))
	}
	// Known finding KF-1 is identified by its call site: RightTrim -> ast.SetReaderPos on the
	// node its operand returned. Ablation: when RightTrim is handed a private copy of that
	// node, every difference must disappear; whatever remains has another cause.
	diffs2, err := runC07(c, true, nil)
	if err != nil {
		return err
	}
	if len(diffs2) > 0 {
		return fmt.Errorf("not explained by the known finding KF-1 (it remains when RightTrim gets a private copy of its operand's result): %s", diffs2[0])
	}
	// and the change must be the one KF-1 describes: ends moved forward over whitespace
	st.KnownFinding("KF-1")
	st.Class("KF-1 observed (RightTrim moved an end in place)")
	return nil
}

// lrFan: several directly left-recursive rules (one or two left-recursive alternatives each, with or
// without a base alternative) and several rules that each start with two of them; the root asks
// the combining rules one after the other and the first one once more. The sets of curtailed
// parsers of the left-recursive rules meet in the combining rules, in different combinations.
func lrFan(t *rapid.T) *Grammar {
	k := rapid.IntRange(2, 4).Draw(t, "fanLR")
	m := rapid.IntRange(2, 3).Draw(t, "fanComb")
	g := &Grammar{Rules: make([]*Expr, 1+k+m), Layer: make([]int, 1+k+m)}
	term := func() *Expr { return tm("ab"[rapid.IntRange(0, 1).Draw(t, "fanCh")]) }
	for i := 1; i <= k; i++ {
		alts := []*Expr{{K: KSeqOf, Kids: []*Expr{rf(i), term()}}}
		if rapid.Bool().Draw(t, "fanTwo") {
			alts = append(alts, &Expr{K: KSeqOf, Kids: []*Expr{rf(i), term()}})
		}
		if rapid.Bool().Draw(t, "fanBase") {
			alts = append(alts, term())
		}
		g.Rules[i] = &Expr{K: KAny, Kids: alts}
	}
	var roots []*Expr
	for j := 1 + k; j <= k+m; j++ {
		x := rapid.IntRange(1, k).Draw(t, "fanX")
		y := rapid.IntRange(1, k).Draw(t, "fanY")
		g.Rules[j] = &Expr{K: KAny, Kids: []*Expr{{K: KSeqOf, Kids: []*Expr{rf(x), term()}}, {K: KSeqOf, Kids: []*Expr{rf(y), term()}}}}
		g.Layer[j] = 1
		roots = append(roots, rf(j))
	}
	g.Layer[0] = 2
	g.Rules[0] = &Expr{K: KAny, Kids: append(roots, rf(1+k))}
	g.number()
	return g
}

func init() {
	register(&Property{
		ID:      "C07",
		NewCase: func() interface{} { return &GCase{} },
		Gen: func(t *rapid.T) interface{} {
			if rapid.IntRange(0, 7).Draw(t, "tokens") == 3 {
				return &GCase{Toks: genC10(t).(*C10Case)}
			}
			o := GenOpts{MaxNT: 3, MaxDepth: 3, Alphabet: "ab", NonMono: true, MaxInput: 6, Skeleton: rapid.Bool().Draw(t, "skeleton"), Share: true, ExtraMemo: 4, SeqOpts: true, Single: rapid.IntRange(0, 3).Draw(t, "single") == 0}
			if thorough() {
				o.MaxNT, o.MaxInput = 4, 8
			}
			if rapid.IntRange(0, 11).Draw(t, "lrfan") == 5 {
				g := lrFan(t)
				return &GCase{G: g, In: rapid.StringMatching("[ab]{0,3}").Draw(t, "fanIn"), MemoAll: true}
			}
			bigRing := rapid.IntRange(0, 11).Draw(t, "bigring") == 0
			if bigRing {
				// many mutually left-recursive rules: sets of curtailed parsers with several members, merged
				// by several consumers
				o.MaxNT, o.MaxDepth, o.MaxInput, o.Skeleton, o.SkWeights, o.Single = 8, 2, 4, true, []int{3, 3, 4, 7}, false
			}
			if !bigRing && rapid.IntRange(0, 3).Draw(t, "trims") == 0 {
				o.Trims = true
				o.Alphabet = "ab \n"
				o.MaxInput += 2
			}
			g := GenGrammar(t, o)
			if o.Trims && rapid.Bool().Draw(t, "trimskeleton") {
				trimSkeleton(t, g, o)
				fixRepetitions(g, t, o.Alphabet)
				g.number()
			}
			if rapid.IntRange(0, 2).Draw(t, "share") == 0 {
				shareTransform(t, g, o)
				fixRepetitions(g, t, o.Alphabet)
				g.number()
			}
			return &GCase{G: g, In: GenInput(t, g, o), MemoAll: o.Trims || bigRing || rapid.IntRange(0, 3).Draw(t, "memoAll") > 0}
		},
		Check: checkC07,
	})
}

func TestC07(t *testing.T) { RunProperty(t, "C07") }
