package harness

import (
	"fmt"
	"testing"

	"github.com/opsidian/parsley/ast/interpreter"
	"github.com/opsidian/parsley/data"
	"github.com/opsidian/parsley/parsley"
	"pgregory.net/rapid"
)

// C07: a returned result is never modified afterwards (history invariant over snapshots of
// every node / list object any parser returned).

func endsOf(ts TreeSet) bits {
	var b bits
	for _, e := range ts {
		if e >= 0 && e < 64 {
			b |= 1 << uint(e)
		}
	}
	return b
}

// runC07 returns the post-return modifications and re-ask disagreements it observed.
func runC07(c *GCase, clone bool, st *Stats) (diffs []string, err error) {
	g, in := c.G, c.In
	trims := hasKind(g, KLTrim, KRTrim)
	// Single drops a result that arrives together with an error; Optional passes its operand's error
	// on, and whether that operand failed (error) or was curtailed (no error) depends on the calling
	// context: with Single the fresh-context comparison below would compare two legitimate answers
	single := hasKind(g, KSingle)
	probe := NewProbe()
	probe.Budget = 8000
	probe.Snap = true
	// sequence-like nodes are bound to the library's own Array interpreter: evaluating a returned
	// tree (twice) is part of the history after which every returned node must read the same
	b := Build(g, BuildOpts{MemoRules: c.memoRules(), Probe: probe, CloneTrimOperand: clone, Interp: interpreter.Array()})
	ctx, f := NewCtx(in)
	root, _, berr := parseGuarded(b.NT[0], ctx, data.EmptyIntMap, f.Pos(0))
	if berr != nil {
		return nil, fmt.Errorf("%v", berr)
	}
	for _, alt := range alternatives(root) {
		for round := 0; round < 2; round++ {
			func() {
				defer func() { _ = recover() }() // a node without value or interpreter may refuse; it must not be changed
				_, _ = parsley.EvaluateNode(nil, alt)
			}()
		}
	}
	compare := func(what string) {
		for _, s := range probe.snaps {
			if now := RenderResult(s.node, 1); now != s.repr {
				diffs = append(diffs, fmt.Sprintf("%s: the result returned by %s changed after it was returned:\n was %s\n now %s", what, s.who, s.repr, now))
			}
		}
	}
	compare("after the parse")
	shared := false
	for _, v := range probe.asks {
		if v >= 2 {
			shared = true
		}
	}
	// ask every rule again at every position: same context twice, then a fresh context
	probe.Snap = false
	for nt := range g.Rules {
		for i := 0; i <= len(in); i++ {
			n1, _, _ := parseGuarded(b.NT[nt], ctx, data.EmptyIntMap, f.Pos(i))
			r1 := ResultSet(n1, 1)
			n2, _, _ := parseGuarded(b.NT[nt], ctx, data.EmptyIntMap, f.Pos(i))
			r2 := ResultSet(n2, 1)
			ctx3, f3 := NewCtx(in)
			n3, _, _ := parseGuarded(b.NT[nt], ctx3, data.EmptyIntMap, f3.Pos(i))
			r3 := ResultSet(n3, 1)
			k1, k2 := fmt.Sprint(sortedKeys(r1)), fmt.Sprint(sortedKeys(r2))
			if k1 != k2 {
				diffs = append(diffs, fmt.Sprintf("asking N%d again at offset %d in the same context gives a different answer:\n first %s\n again %s", nt, i, k1, k2))
			}
			// a fresh context must reach the same end offsets (the tree sets may differ in how far
			// an unboundedly ambiguous cycle was unrolled, which depends on the calling context)
			// (only where C01 gives the grammar a meaning: with LeftTrim/RightTrim a parser can return
			// a node together with a whitespace error, and what a fresh context returns is not
			// something C07 speaks about)
			if e1, e3 := endsOf(r1), endsOf(r3); e1 != e3 && !trims && !single {
				diffs = append(diffs, fmt.Sprintf("N%d at offset %d reaches ends %v when asked again after the parse but %v in a fresh context", nt, i, bitsList(e1), bitsList(e3)))
			}
		}
	}
	compare("after asking every rule again")
	if st != nil {
		st.ClassN("snapshots", len(probe.snaps))
		if shared {
			st.Class("a memoized result was handed to >= 2 consumers")
		}
		multi := false
		for _, s := range probe.snaps {
			if len(s.repr) > 0 && s.repr[0] == '{' && len(s.who) > 2 && s.who[:2] == "M:" {
				multi = true
			}
		}
		if shared && multi {
			st.NonTrivial()
			st.Class("cached list with >= 2 alternatives and >= 2 consumers")
		}
	}
	return diffs, nil
}

func checkC07(ci interface{}, st *Stats) error {
	c := ci.(*GCase)
	c.G.number()
	hasRTrim := hasKind(c.G, KRTrim)
	if hasKind(c.G, KLTrim, KRTrim) {
		st.Class("grammar with LeftTrim/RightTrim")
	}
	diffs, err := runC07(c, false, st)
	if err != nil {
		return err
	}
	if len(diffs) == 0 {
		return nil
	}
	if !hasRTrim {
		return fmt.Errorf("%s\n(%d differences in total)", diffs[0], len(diffs))
	}
	// Known finding KF-1 is identified by its call site: RightTrim -> ast.SetReaderPos on the
	// node its operand returned. Ablation: when RightTrim is handed a private copy of that
	// node, every difference must disappear; whatever remains has another cause.
	diffs2, err := runC07(c, true, nil)
	if err != nil {
		return err
	}
	if len(diffs2) > 0 {
		return fmt.Errorf("not explained by the known finding KF-1 (it remains when RightTrim gets a private copy of its operand's result): %s", diffs2[0])
	}
	// and the change must be the one KF-1 describes: ends moved forward over whitespace
	st.KnownFinding("KF-1")
	st.Class("KF-1 observed (RightTrim moved an end in place)")
	return nil
}

func init() {
	register(&Property{
		ID:      "C07",
		NewCase: func() interface{} { return &GCase{} },
		Gen: func(t *rapid.T) interface{} {
			o := GenOpts{MaxNT: 3, MaxDepth: 3, Alphabet: "ab", NonMono: true, MaxInput: 6, Skeleton: rapid.Bool().Draw(t, "skeleton"), Share: true, ExtraMemo: 4, SeqOpts: true, Single: rapid.IntRange(0, 3).Draw(t, "single") == 0}
			if thorough() {
				o.MaxNT, o.MaxInput = 4, 8
			}
			if rapid.IntRange(0, 3).Draw(t, "trims") == 0 {
				o.Trims = true
				o.Alphabet = "ab \n"
				o.MaxInput += 2
			}
			g := GenGrammar(t, o)
			if o.Trims && rapid.Bool().Draw(t, "trimskeleton") {
				trimSkeleton(t, g, o)
				fixRepetitions(g, t, o.Alphabet)
				g.number()
			}
			if rapid.IntRange(0, 2).Draw(t, "share") == 0 {
				shareTransform(t, g, o)
				fixRepetitions(g, t, o.Alphabet)
				g.number()
			}
			return &GCase{G: g, In: GenInput(t, g, o), MemoAll: o.Trims || rapid.IntRange(0, 3).Draw(t, "memoAll") > 0}
		},
		Check: checkC07,
	})
}

func TestC07(t *testing.T) { RunProperty(t, "C07") }
