package harness

import (
	"fmt"
	"strings"
	"testing"

	"github.com/opsidian/parsley/parsley"
	"github.com/opsidian/parsley/text"
	"pgregory.net/rapid"
)

// SrcCase is a source text (C05, C16).
type SrcCase struct {
	Src string `json:"src"`
	Pre int    `json:"pre,omitempty"` // > 0: the expression's file follows a file of that many bytes
	// Fresh: the grammar is constructed for this case (a program that builds parsers as it goes);
	// otherwise one grammar value serves every case of the process
	Fresh bool `json:"fresh,omitempty"`
	// ReaderFirst (with Pre > 0): the reader is created before the file is placed in its set
	ReaderFirst bool `json:"readerFirst,omitempty"`
	// Style 1: the grammar written like the library's JSON example (tokens left-trimmed, base
	// alternative first, Trim around the root) instead of Trim around every token
	Style int `json:"style,omitempty"`
	// Name: how the parsed file is called (0: "f"; see fileNameKind: unnamed, "./f", ...): the location
	// in an error message names the file the way the caller named it
	Name int `json:"name,omitempty"`
}

func (c *SrcCase) Describe() string {
	if c.Pre > 0 {
		return fmt.Sprintf("%q after a file of %d bytes", c.Src, c.Pre)
	}
	return fmt.Sprintf("%q", c.Src)
}

var arithP = arithParser()
var arithP1 = arithParserStyle(1)
var arithP2 = arithParserStyle(2)
var arithP3 = arithParserStyle(3)

type arithOpts struct {
	Fresh, ReaderFirst bool
	Style, Name        int
}

func checkC05(ci interface{}, st *Stats) error {
	c := ci.(*SrcCase)
	if c.Pre > 0 {
		st.Class("file placed after another file")
	}
	if c.Fresh {
		st.Class("grammar constructed for the case")
	} else {
		st.Class("grammar value shared with earlier cases")
	}
	if c.Style == 1 {
		st.Class("grammar in the JSON example's style (left-trimmed tokens, trimmed root)")
	}
	if c.Style == 2 {
		st.Class("operators are terminal.Op tokens")
	}
	if c.Style == 3 {
		st.Class("left-trimmed tokens, the operand is a named Choice")
	}
	if c.Name != 0 {
		st.Class("file name other than a plain word (none, ./f, d/../f, my%20f, ...)")
	}
	return checkArithAt(c.Src, c.Pre, st, arithOpts{c.Fresh, c.ReaderFirst, c.Style, c.Name})
}

func checkArith(s string, st *Stats) error { return checkArithAt(s, 0, st, arithOpts{}) }

func checkArithAt(s string, pre int, st *Stats, o arithOpts) error {
	p := arithP
	switch o.Style {
	case 1:
		p = arithP1
	case 2:
		p = arithP2
	case 3:
		p = arithP3
	}
	if o.Fresh {
		p = arithParserStyle(o.Style)
	}
	name := fileNameKind(o.Name)
	want, werr := refEval(s)
	if st != nil {
		switch {
		case len(s) > 300:
			st.Class("source longer than 300 bytes")
		case len(s) > 100:
			st.Class("source longer than 100 bytes")
		}
	}
	ctx, _, _ := NewCtxAtNamed(name, s, pre)
	if o.ReaderFirst && pre > 0 {
		// the reader exists before its file gets its place behind another file
		f := newFileOwned(name, []byte(s))
		rd := text.NewReader(f)
		ctx = parsley.NewContext(parsley.NewFileSet(text.NewFile("pre", []byte(strings.Repeat("x", pre))), f, text.NewFile("post", []byte("y"))), rd)
		if st != nil {
			st.Class("reader created before the file was placed")
		}
	}
	// Work bound (a count, not a clock): the pinned library needs about 3 n^2 parser calls for an
	// n-byte expression; a parse is stopped at 1000 n^2 + 10^6 calls and reported, because
	// "Evaluate returns the value / an error" is not met by a parse that practically never ends.
	limit := 1000*len(s)*len(s) + 1000000
	ctx.SetUserContext(&arithLimit{limit})
	var got interface{}
	var gerr error
	stopped := -1
	func() {
		defer func() {
			if r := recover(); r != nil {
				if cl, ok := r.(callLimit); ok {
					stopped = cl.n
					return
				}
				panic(r)
			}
		}()
		got, gerr = parsley.Evaluate(ctx, p)
	}()
	if stopped >= 0 {
		return fmt.Errorf("Evaluate was stopped after %d parser calls on a %d-byte expression (bound %d; about %d would be normal): it does not return a value or an error in any reasonable amount of work", stopped, len(s), limit, 3*len(s)*len(s)+100)
	}
	switch {
	case werr != nil:
		if st != nil {
			st.Class("ill-formed")
		}
		if gerr == nil {
			return fmt.Errorf("ill-formed expression was accepted with value %v", got)
		}
	case want.err != nil:
		if st != nil {
			st.Class("division by zero")
			st.NonTrivial()
		}
		norm := string(normCRLF([]byte(s)))
		l, c := lineCol(norm, want.err.off)
		exp := "division by zero at " + locText(name, l, c)
		if gerr == nil || gerr.Error() != exp {
			return fmt.Errorf("want error %q, got value %v / error %v", exp, got, gerr)
		}
	default:
		if gerr != nil {
			return fmt.Errorf("well-formed expression rejected: %v (reference value %d)", gerr, want.v)
		}
		if v, ok := got.(int64); !ok || v != want.v {
			return fmt.Errorf("value %v (%T), reference evaluator gives %d", got, got, want.v)
		}
		if st != nil {
			st.Class("value")
			mixed, chain := arithShape(s)
			if mixed {
				st.Class("mixes precedence levels")
			}
			if chain >= 2 {
				st.Class("chain of >=3 operands with - or /")
			}
			if mixed && chain >= 2 {
				st.NonTrivial()
			}
			switch {
			case len(s) > 300:
				st.Class("value, longer than 300 bytes")
			case len(s) > 100:
				st.Class("value, longer than 100 bytes")
			case len(s) > 30:
				st.Class("value, longer than 30 bytes")
			}
			if strings.Contains(s, "\n") {
				st.Class("contains line break")
			}
		}
	}
	return nil
}

func init() {
	register(&Property{
		ID:      "C05",
		NewCase: func() interface{} { return &SrcCase{} },
		Gen: func(t *rapid.T) interface{} {
			maxd := 6
			if thorough() {
				maxd = 8
			}
			var s string
			if rapid.IntRange(0, 9).Draw(t, "long") == 0 {
				// a long flat chain with small nested groups: hundreds of bytes, deep left recursion
				// (more than 100 operands on one level: recursion deeper than any round number)
				sizes := []int{10, 15, 20, 30, 40, 105, 140}
				if thorough() {
					sizes = append(sizes, 60, 80, 100, 200)
				}
				n := rapid.SampledFrom(sizes).Draw(t, "terms")
				var sb strings.Builder
				zeroFree = rapid.IntRange(0, 3).Draw(t, "zerofree") > 0
				ops := []string{"+", "-", "*", "/", "-", "/"}
				if n > 100 {
					// all operands on ONE precedence level: that many nested levels of one rule
					ops = rapid.SampledFrom([][]string{{"+", "-"}, {"*", "/"}, {"+"}, {"-"}}).Draw(t, "level")
				}
				for i := 0; i < n; i++ {
					if i > 0 {
						sb.WriteString(rapid.SampledFrom(ops).Draw(t, "lop"))
					}
					if n > 100 {
						sb.WriteString(genExpr(t, 0)) // plain literals keep a very long chain short in bytes
					} else {
						sb.WriteString(genExpr(t, rapid.IntRange(0, 2).Draw(t, "ld")))
					}
				}
				zeroFree = false
				s = sb.String()
			} else {
				s = genExpr(t, rapid.IntRange(0, maxd).Draw(t, "depth"))
			}
			if rapid.IntRange(0, 5).Draw(t, "mutate") == 0 {
				s = mutateSource(t, s, "+-*/() 1.x0\n\r\v\x00_")
			}
			pre := 0
			if rapid.IntRange(0, 4).Draw(t, "placed") == 2 {
				pre = rapid.SampledFrom([]int{1, 2, 5, 20, 300, 65536}).Draw(t, "pre")
			}
			return &SrcCase{Src: s, Pre: pre, Fresh: rapid.Bool().Draw(t, "fresh"), ReaderFirst: rapid.Bool().Draw(t, "readerFirst"), Style: rapid.SampledFrom([]int{0, 0, 1, 2, 3}).Draw(t, "style"),
				Name: rapid.SampledFrom([]int{0, 0, 0, 1, 2, 3, 4, 5, 6, 7, 8}).Draw(t, "name")}
		},
		Check: checkC05,
	})
}

func TestC05(t *testing.T) { RunProperty(t, "C05") }

// FuzzC05 is the coverage-guided variant: raw bytes, same differential oracle.
func FuzzC05(f *testing.F) {
	for _, s := range []string{"1+2*3", "(1-2)-3", "8/2/2", "1/0", " 1 +\n 2 ", "0x1F*07", "-1--1", "((1))", "1+", "9223372036854775807+1", "1 - - 2", "2*(3+4)/(5-5)"} {
		f.Add([]byte(s))
	}
	f.Fuzz(func(t *testing.T, b []byte) {
		if len(b) > 200 {
			return
		}
		if err := checkArith(string(b), nil); err != nil {
			fuzzFail(t, "C05", &SrcCase{Src: string(b)}, err)
		}
	})
}
