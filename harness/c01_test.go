package harness

import (
	"fmt"
	"testing"

	"github.com/opsidian/parsley/data"
	"pgregory.net/rapid"
)

// GCase is a grammar with an input; the case of C01, C02, C07 and (with extras) others.
type GCase struct {
	G       *Grammar `json:"g"`
	In      string   `json:"in"`
	MemoAll bool     `json:"memoAll"`          // also memoize the non-recursive rules
	PreLen  int      `json:"preLen,omitempty"` // > 0: the parsed file follows a file of that length (used by C02)
	Toks    *C10Case `json:"toks,omitempty"`   // C07 only: a literal token sequence instead of a grammar
}

func (c *GCase) Describe() string {
	if c.Toks != nil {
		return "literal tokens: " + c.Toks.Describe()
	}
	in := c.In
	if len(in) > 80 {
		in = fmt.Sprintf("%s...(%d bytes)", in[:60], len(in))
	}
	s := fmt.Sprintf("grammar: %s input: %q memoAll=%v", c.G, in, c.MemoAll)
	if c.PreLen > 0 {
		s += fmt.Sprintf(" after a file of %d bytes", c.PreLen)
	}
	return s
}

func (c *GCase) memoRules() []bool {
	m := recursiveRules(c.G)
	if c.MemoAll {
		for i := range m {
			m[i] = true
		}
	}
	return m
}

func genOptsC01() GenOpts {
	o := GenOpts{MaxNT: 3, MaxDepth: 3, Alphabet: "ab", NonMono: true, MaxInput: 6, Skeleton: true}
	if thorough() {
		o.MaxNT, o.MaxInput = 4, 9
	}
	return o
}

func classifyGrammar(g *Grammar, st *Stats) lrClass {
	c := classifyLR(g)
	switch {
	case c.Hidden:
		st.Class("lr-hidden")
	case c.Indirect:
		st.Class("lr-indirect")
	case c.Direct:
		st.Class("lr-direct")
	default:
		st.Class("lr-none")
	}
	if c.Hidden && c.Indirect {
		st.Class("lr-hidden+indirect")
	}
	rec := recursiveRules(g)
	lrr := leftRecursiveRules(g)
	for i := range rec {
		if rec[i] && !lrr[i] {
			st.Class("right-or-centre-recursive-rule")
			break
		}
	}
	for _, k := range []Kind{KChoice, KMany, KMany1, KSepBy, KSepBy1, KSeqTry, KSeqFirstOrAll, KEmpty, KOpt} {
		if hasKind(g, k) {
			st.Class("op-" + k.String())
		}
	}
	return c
}

func checkC01(ci interface{}, st *Stats) error {
	c := ci.(*GCase)
	g, in := c.G, c.In
	g.number()
	lr := classifyGrammar(g, st)
	ref := NewRef(g, in)
	probe := NewProbe()
	probe.InLen = len(in)
	_, _, base := NewCtxAt(in, c.PreLen)
	probe.Base = base
	if c.PreLen > 0 {
		st.Class("file placed after another file")
	}
	b := Build(g, BuildOpts{MemoRules: c.memoRules(), Probe: probe})
	type q struct {
		got  TreeSet
		ends bits
	}
	res := make([][]q, len(g.Rules))
	lrRules := leftRecursiveRules(g)
	nontrivial := false
	trims := hasKind(g, KLTrim) || hasKind(g, KRTrim)
	if trims {
		// whitespace trimming is followed on the span level: which end offsets a rule reaches
		st.Class("grammar with whitespace trimming (span level)")
	}
	for nt := range g.Rules {
		res[nt] = make([]q, len(in)+1)
		for i := 0; i <= len(in); i++ {
			ctx, f, _ := NewCtxAt(in, c.PreLen)
			pn, _, berr := parseGuarded(b.NT[nt], ctx, data.EmptyIntMap, f.Pos(i))
			if berr != nil {
				return fmt.Errorf("N%d@%d does not terminate within the re-entry bound: %v", nt, i, berr)
			}
			val := NewValidator(ref, base)
			got := TreeSet{}
			var ends bits
			for _, alt := range alternatives(pn) {
				r := RenderNode(alt, base)
				e := int(alt.ReaderPos()) - base
				if (int(alt.Pos())-base != i && !trims) || int(alt.Pos())-base < i || e < i || e > len(in) {
					return fmt.Errorf("N%d@%d returned a tree with a span outside [%d,%d]: %s", nt, i, i, len(in), r)
				}
				if !trims && !val.Valid(g.Rules[nt], alt, i) {
					return fmt.Errorf("N%d@%d returned a tree that is no derivation of the rule: %s (all: %s)", nt, i, r, RenderResult(pn, base))
				}
				got[r] = e
				ends |= 1 << uint(e)
			}
			st.Class("queries")
			want := ref.T[nt][i]
			if want != 0 {
				st.Class("queries-nonempty")
				if lrRules[nt] {
					nontrivial = true
				}
			}
			if ends != want {
				return fmt.Errorf("N%d@%d reaches end offsets %v, the grammar derives %v (returned %v)", nt, i, bitsList(ends), bitsList(want), sortedKeys(got))
			}
			res[nt][i] = q{got, ends}
		}
	}
	tr := NewTreeRef(ref, 300, 12)
	if tr.Capped {
		st.Class("span-only(tree cap)")
	} else {
		st.Class("tree-complete")
		for nt := range g.Rules {
			for i := 0; i <= len(in); i++ {
				gk, wk := sortedKeys(res[nt][i].got), sortedKeys(tr.T[nt][i])
				if fmt.Sprint(gk) != fmt.Sprint(wk) {
					return fmt.Errorf("N%d@%d tree sets differ:\n returned %v\n derived  %v", nt, i, gk, wk)
				}
				if len(wk) > 1 {
					st.Class("queries-ambiguous")
				}
			}
		}
	}
	if probe.MaxDepth >= 2 {
		st.Class("left-recursion-exercised")
	}
	for _, v := range probe.asks {
		if v >= 3 {
			st.Class("a memoized parser asked >= 3 times at one position")
			break
		}
	}
	if nontrivial && lr.Any {
		st.NonTrivial()
	}
	return nil
}

func init() {
	register(&Property{
		ID:      "C01",
		NewCase: func() interface{} { return &GCase{} },
		Gen: func(t *rapid.T) interface{} {
			o := genOptsC01()
			if rapid.IntRange(0, 4).Draw(t, "extramemo") == 0 {
				o.ExtraMemo = 4
			}
			o.Share = rapid.Bool().Draw(t, "share")
			o.SeqOpts = rapid.IntRange(0, 2).Draw(t, "seqopts") == 1
			o.RuleNames = rapid.IntRange(0, 3).Draw(t, "rulenames") == 1
			o.Names = rapid.IntRange(0, 2).Draw(t, "names") == 1 // names must not change results
			o.RefTrims = rapid.IntRange(0, 3).Draw(t, "reftrims") == 0
			g := GenGrammar(t, o)
			memoAll := rapid.Bool().Draw(t, "memoAll")
			if rapid.IntRange(0, 3).Draw(t, "alias") == 0 {
				// a cached multi-result list consumed several times at one position
				aliasSkeleton(t, g, o)
				fixRepetitions(g, t, o.Alphabet)
				g.number()
				memoAll = true
			}
			pre := 0
			if rapid.IntRange(0, 4).Draw(t, "placed") == 2 {
				pre = rapid.SampledFrom([]int{1, 3, 17, 300, 65533, 65536, 70000, 140000}).Draw(t, "preLen")
			}
			return &GCase{G: g, In: GenInput(t, g, o), MemoAll: memoAll, PreLen: pre}
		},
		Check: checkC01,
	})
}

func TestC01(t *testing.T) { RunProperty(t, "C01") }
