package harness

import (
	"fmt"
	"sort"
	"strings"
	"testing"
	"unicode/utf8"

	"github.com/opsidian/parsley/combinator"
	"github.com/opsidian/parsley/data"
	"github.com/opsidian/parsley/parser"
	"github.com/opsidian/parsley/text/terminal"
	"pgregory.net/rapid"
)

// GCase is a grammar with an input; the case of C01, C02, C07 and (with extras) others.
type GCase struct {
	G       *Grammar `json:"g"`
	In      string   `json:"in"`
	MemoAll bool     `json:"memoAll"`          // also memoize the non-recursive rules
	PreLen  int      `json:"preLen,omitempty"` // > 0: the parsed file follows a file of that length (used by C02)
	Toks    *C10Case `json:"toks,omitempty"`   // C07 only: a literal token sequence instead of a grammar
	// Long > 0 (C01 only): instead of a generated grammar, one of four left-recursive templates whose
	// derivations are known in closed form, on an input with Long repetitions (recursion depths far
	// beyond what the 62-byte reference can hold)
	// Wide != 0: the model's terminal 'b' is this multi-byte rune in the library's grammar and input
	// (end offsets are mapped back; trees are not compared)
	Wide     int `json:"wide,omitempty"`
	Long     int `json:"long,omitempty"`
	LongKind int `json:"longKind,omitempty"`
}

func (c *GCase) Describe() string {
	if c.Long > 0 {
		return fmt.Sprintf("long template %d with %d repetitions", c.LongKind, c.Long)
	}
	if c.Toks != nil {
		return "literal tokens: " + c.Toks.Describe()
	}
	in := c.In
	if len(in) > 80 {
		in = fmt.Sprintf("%s...(%d bytes)", in[:60], len(in))
	}
	s := fmt.Sprintf("grammar: %s input: %q memoAll=%v", c.G, in, c.MemoAll)
	if c.PreLen > 0 {
		s += fmt.Sprintf(" after a file of %d bytes", c.PreLen)
	}
	return s
}

func (c *GCase) memoRules() []bool {
	m := recursiveRules(c.G)
	if c.MemoAll {
		for i := range m {
			m[i] = true
		}
	}
	return m
}

func genOptsC01() GenOpts {
	o := GenOpts{MaxNT: 3, MaxDepth: 3, Alphabet: "ab", NonMono: true, MaxInput: 6, Skeleton: true}
	if thorough() {
		o.MaxNT, o.MaxInput = 4, 9
	}
	return o
}

func classifyGrammar(g *Grammar, st *Stats) lrClass {
	c := classifyLR(g)
	switch {
	case c.Hidden:
		st.Class("lr-hidden")
	case c.Indirect:
		st.Class("lr-indirect")
	case c.Direct:
		st.Class("lr-direct")
	default:
		st.Class("lr-none")
	}
	if c.Hidden && c.Indirect {
		st.Class("lr-hidden+indirect")
	}
	rec := recursiveRules(g)
	lrr := leftRecursiveRules(g)
	for i := range rec {
		if rec[i] && !lrr[i] {
			st.Class("right-or-centre-recursive-rule")
			break
		}
	}
	for _, k := range []Kind{KChoice, KMany, KMany1, KSepBy, KSepBy1, KSeqTry, KSeqFirstOrAll, KEmpty, KOpt} {
		if hasKind(g, k) {
			st.Class("op-" + k.String())
		}
	}
	return c
}

// checkC01Long: templates with known derivations on long inputs.
//
//	0: P -> P b | a            on a b^n        P@0 reaches 1, 2, ..., n+1
//	1: L -> L , x | x          on x (, x)^n    L@0 reaches 1, 3, ..., 2n+1
//	2: H -> c? H b | a         on a b^n        H@0 reaches 1, 2, ..., n+1
//	3: A -> B b | a; B -> A    on a b^n        A@0 reaches 1, 2, ..., n+1
//
// and nothing from offset 1 (where no rule can start).
func checkC01Long(c *GCase, st *Stats) error {
	n := c.Long
	if n > 400 || (c.LongKind == 2 && n > 120) {
		return Discard{"long template: too long"}
	}
	r := terminal.Rune
	var root parser.Func
	var in string
	var want []int
	switch c.LongKind % 4 {
	case 0:
		root = combinator.Memoize(combinator.Any(combinator.SeqOf(&root, r('b')), r('a')))
		in = "a" + strings.Repeat("b", n)
		for e := 1; e <= n+1; e++ {
			want = append(want, e)
		}
	case 1:
		root = combinator.Memoize(combinator.Any(r('x'), combinator.SeqOf(&root, r(','), r('x'))))
		in = "x" + strings.Repeat(",x", n)
		for e := 1; e <= 2*n+1; e += 2 {
			want = append(want, e)
		}
	case 2:
		root = combinator.Memoize(combinator.Any(combinator.SeqOf(combinator.Optional(r('c')), &root, r('b')), r('a')))
		in = "a" + strings.Repeat("b", n)
		for e := 1; e <= n+1; e++ {
			want = append(want, e)
		}
	default:
		var b parser.Func
		root = combinator.Memoize(combinator.Any(combinator.SeqOf(&b, r('b')), r('a')))
		b = combinator.Memoize(&root)
		in = "a" + strings.Repeat("b", n)
		for e := 1; e <= n+1; e++ {
			want = append(want, e)
		}
	}
	ends := func(off int) (out []int, err error) {
		defer func() {
			if r := recover(); r != nil {
				err = fmt.Errorf("panic: %v", r)
			}
		}()
		ctx, f := NewCtx(in)
		res, _, _ := root.Parse(ctx, data.EmptyIntMap, f.Pos(off))
		seen := map[int]bool{}
		for _, alt := range alternatives(res) {
			if int(alt.Pos())-1 != off {
				return nil, fmt.Errorf("a result of the rule asked at %d starts at %d", off, int(alt.Pos())-1)
			}
			seen[int(alt.ReaderPos())-1] = true
		}
		for e := range seen {
			out = append(out, e)
		}
		sort.Ints(out)
		return out, nil
	}
	got, err := ends(0)
	if err != nil {
		return err
	}
	if fmt.Sprint(got) != fmt.Sprint(want) {
		miss := []int{}
		have := map[int]bool{}
		for _, e := range got {
			have[e] = true
		}
		for _, e := range want {
			if !have[e] && len(miss) < 8 {
				miss = append(miss, e)
			}
		}
		return fmt.Errorf("long template %d, %d repetitions (%d bytes): the rule reaches %d end offsets from 0, the grammar derives %d; first missing: %v", c.LongKind%4, n, len(in), len(got), len(want), miss)
	}
	if got1, err := ends(1); err != nil || len(got1) != 0 {
		return fmt.Errorf("long template %d: asked at offset 1 the rule returns ends %v (error %v), it derives nothing there", c.LongKind%4, got1, err)
	}
	st.Class(fmt.Sprintf("long template %d", c.LongKind%4))
	if n >= 64 {
		st.Class("long template with recursion depth >= 64")
		st.NonTrivial()
	}
	return nil
}

func checkC01(ci interface{}, st *Stats) error {
	c := ci.(*GCase)
	if c.Long > 0 {
		return checkC01Long(c, st)
	}
	if c.G == nil {
		return Discard{"no grammar"}
	}
	g, in := c.G, c.In
	g.number()
	if singleSeesRTrim(g) {
		return Discard{"Single over a right-trimmed sequence: the reference does not describe it"}
	}
	lr := classifyGrammar(g, st)
	ref := NewRef(g, in)
	// (wide: the library sees a multi-byte rune wherever the model has the byte 'b')
	w := widen(in, rune(c.Wide))
	wide := c.Wide != 0
	if wide {
		if c.Wide < 0x80 || !utf8.ValidRune(rune(c.Wide)) {
			return Discard{"not a multi-byte rune"}
		}
		st.Class("terminal b is a multi-byte rune (end offsets mapped back)")
	}
	probe := NewProbe()
	probe.InLen = len(w.Lib)
	_, _, base := NewCtxAt(w.Lib, c.PreLen)
	probe.Base = base
	if c.PreLen > 0 {
		st.Class("file placed after another file")
	}
	b := Build(g, BuildOpts{MemoRules: c.memoRules(), Probe: probe, Wide: rune(c.Wide)})
	if len(in) >= 2 {
		// the grammar value has a history: it parsed a shorter input (the first half) before
		ctx0, f0, _ := NewCtxAt(widen(in[:len(in)/2], rune(c.Wide)).Lib, 0)
		if _, _, berr := parseGuarded(b.NT[0], ctx0, data.EmptyIntMap, f0.Pos(0)); berr != nil {
			return fmt.Errorf("N0@0 on the first half of the input does not terminate within the re-entry bound: %v", berr)
		}
	}
	type q struct {
		got  TreeSet
		ends bits
	}
	res := make([][]q, len(g.Rules))
	lrRules := leftRecursiveRules(g)
	nontrivial := false
	trims := hasKind(g, KLTrim) || hasKind(g, KRTrim) || wide || hasKind(g, KSingle)
	if trims && !wide {
		// whitespace trimming is followed on the span level: which end offsets a rule reaches
		st.Class("grammar with whitespace trimming (span level)")
	}
	for nt := range g.Rules {
		res[nt] = make([]q, len(in)+1)
		for i := 0; i <= len(in); i++ {
			ctx, f, _ := NewCtxAt(w.Lib, c.PreLen)
			pn, _, berr := parseGuarded(b.NT[nt], ctx, data.EmptyIntMap, f.Pos(w.Off[i]))
			if berr != nil {
				return fmt.Errorf("N%d@%d does not terminate within the re-entry bound: %v", nt, i, berr)
			}
			val := NewValidator(ref, base)
			got := TreeSet{}
			var ends bits
			for _, alt := range alternatives(pn) {
				r := RenderNode(alt, base)
				e, okE := w.Inv[int(alt.ReaderPos())-base]
				sOff, okS := w.Inv[int(alt.Pos())-base]
				if !okE || !okS {
					return fmt.Errorf("N%d@%d returned a tree whose span %d..%d does not lie on rune boundaries of %q: %s", nt, i, int(alt.Pos())-base, int(alt.ReaderPos())-base, w.Lib, r)
				}
				if (sOff != i && !trims) || sOff < i || e < i || e > len(in) {
					return fmt.Errorf("N%d@%d returned a tree with a span outside [%d,%d]: %s", nt, i, i, len(in), r)
				}
				if !trims && !val.Valid(g.Rules[nt], alt, i) {
					return fmt.Errorf("N%d@%d returned a tree that is no derivation of the rule: %s (all: %s)", nt, i, r, RenderResult(pn, base))
				}
				got[r] = e
				ends |= 1 << uint(e)
			}
			st.Class("queries")
			want := ref.T[nt][i]
			if want != 0 {
				st.Class("queries-nonempty")
				if lrRules[nt] {
					nontrivial = true
				}
			}
			if ends != want {
				return fmt.Errorf("N%d@%d reaches end offsets %v, the grammar derives %v (returned %v)", nt, i, bitsList(ends), bitsList(want), sortedKeys(got))
			}
			res[nt][i] = q{got, ends}
		}
	}
	tr := NewTreeRef(ref, 300, 12)
	if tr.Capped || wide {
		st.Class("span-only(tree cap)")
	} else {
		st.Class("tree-complete")
		for nt := range g.Rules {
			for i := 0; i <= len(in); i++ {
				gk, wk := sortedKeys(res[nt][i].got), sortedKeys(tr.T[nt][i])
				if fmt.Sprint(gk) != fmt.Sprint(wk) {
					return fmt.Errorf("N%d@%d tree sets differ:\n returned %v\n derived  %v", nt, i, gk, wk)
				}
				if len(wk) > 1 {
					st.Class("queries-ambiguous")
				}
			}
		}
	}
	if probe.MaxDepth >= 2 {
		st.Class("left-recursion-exercised")
	}
	for _, v := range probe.asks {
		if v >= 3 {
			st.Class("a memoized parser asked >= 3 times at one position")
			break
		}
	}
	if nontrivial && lr.Any {
		st.NonTrivial()
	}
	return nil
}

func init() {
	register(&Property{
		ID:      "C01",
		NewCase: func() interface{} { return &GCase{} },
		Gen: func(t *rapid.T) interface{} {
			if rapid.IntRange(0, 60).Draw(t, "long") == 31 {
				n := rapid.IntRange(40, 100).Draw(t, "longN")
				if rapid.IntRange(0, 3).Draw(t, "longer") == 0 {
					n = rapid.IntRange(100, 300).Draw(t, "longN2")
				}
				return &GCase{Long: n, LongKind: rapid.IntRange(0, 3).Draw(t, "longKind")}
			}
			o := genOptsC01()
			if rapid.IntRange(0, 4).Draw(t, "extramemo") == 0 {
				o.ExtraMemo = 4
			}
			o.Share = rapid.Bool().Draw(t, "share")
			o.SeqOpts = rapid.IntRange(0, 2).Draw(t, "seqopts") == 1
			o.RuleNames = rapid.IntRange(0, 3).Draw(t, "rulenames") == 1
			o.Names = rapid.IntRange(0, 2).Draw(t, "names") == 1 // names must not change results
			o.RefTrims = rapid.IntRange(0, 3).Draw(t, "reftrims") == 0
			o.SingleSafe = rapid.IntRange(0, 4).Draw(t, "singlesafe") == 0
			g := GenGrammar(t, o)
			memoAll := rapid.Bool().Draw(t, "memoAll")
			if rapid.IntRange(0, 3).Draw(t, "alias") == 0 {
				// a cached multi-result list consumed several times at one position
				aliasSkeleton(t, g, o)
				fixRepetitions(g, t, o.Alphabet)
				g.number()
				memoAll = true
			}
			wideRune := 0
			if !o.RefTrims && rapid.IntRange(0, 5).Draw(t, "wide") == 0 {
				wideRune = int(rapid.SampledFrom([]rune{0x80, 0xe9, 0xff, 0x100, 0x7ff, 0x800, 0x20ac, 0xfffd, 0xffff, 0x10000, 0x1f600}).Draw(t, "wideRune"))
			}
			pre := 0
			if rapid.IntRange(0, 4).Draw(t, "placed") == 2 {
				pre = rapid.SampledFrom([]int{1, 3, 17, 300, 65533, 65536, 70000, 140000}).Draw(t, "preLen")
			}
			return &GCase{G: g, In: GenInput(t, g, o), MemoAll: memoAll, PreLen: pre, Wide: wideRune}
		},
		Check: checkC01,
	})
}

func TestC01(t *testing.T) { RunProperty(t, "C01") }
