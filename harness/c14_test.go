package harness

import (
	"fmt"
	"os"
	"runtime"
	"strings"
	"sync"
	"sync/atomic"
	"testing"

	"github.com/opsidian/parsley/ast/interpreter"
	"github.com/opsidian/parsley/combinator"
	"github.com/opsidian/parsley/data"
	"github.com/opsidian/parsley/examples/json/json"
	"github.com/opsidian/parsley/parser"
	"github.com/opsidian/parsley/parsley"
	"github.com/opsidian/parsley/text"
	"github.com/opsidian/parsley/text/terminal"
	"pgregory.net/rapid"
)

// C14Case: one shared parser graph, N goroutines each with its own inputs (own file, reader
// and context per parse), optionally constructing further grammars at the same time.
type C14Case struct {
	Grammar   string     `json:"grammar"` // arith | json | lr | lits | generated
	G         *Grammar   `json:"g,omitempty"`
	Jobs      [][]string `json:"jobs"`
	Construct bool       `json:"construct"`
	Procs     int        `json:"procs"`
	Keywords  [][]string `json:"keywords,omitempty"` // per goroutine: registered in every context of that goroutine
	Toks      *C10Case   `json:"toks,omitempty"`     // grammar "toks": a trimmed token sequence (all four modes, left and right) shared by the goroutines
	Pre       []int      `json:"pre,omitempty"`      // per goroutine (index modulo length): its files stand behind a file of that many bytes in their sets
	Pattern   int        `json:"pattern"`            // makes the regular expressions of the "lits" grammar and of concurrently constructed terminals fresh in this process
}

func (c *C14Case) Describe() string {
	s := fmt.Sprintf("grammar=%s goroutines=%d construct=%v GOMAXPROCS=%d jobs=%q", c.Grammar, len(c.Jobs), c.Construct, c.Procs, c.Jobs)
	if c.G != nil {
		s += " grammar: " + c.G.String()
	}
	return s
}

func genC14(t *rapid.T) interface{} {
	c := &C14Case{Grammar: rapid.SampledFrom([]string{"arith", "arith", "json", "json", "lr", "lits", "generated", "idents", "idents", "toks", "toks", "nomatch", "seqshare"}).Draw(t, "grammar")}
	if thorough() && os.Getenv("VERIF_C14_DEEP") != "" && rapid.IntRange(0, 69).Draw(t, "deep") == 33 {
		// a nesting depth of tens of thousands in a few goroutines at once (whatever a parser value
		// counts while it runs is then counted for all of them together). Opt-in only (VERIF_C14_DEEP,
		// thorough tier): one such case costs minutes under the race detector - with one case in 70 the
		// quick tier went from 30 s to its time-out - so no registered command draws it.
		c.Grammar = "deep"
	}
	c.Procs = rapid.SampledFrom([]int{2, 4, 16}).Draw(t, "procs")
	c.Construct = rapid.Bool().Draw(t, "construct")
	c.Pattern = rapid.IntRange(0, 1<<30).Draw(t, "pattern")
	var o GenOpts
	if c.Grammar == "generated" {
		o = GenOpts{MaxNT: 3, MaxDepth: 3, Alphabet: "ab", NonMono: true, MaxInput: 6, Skeleton: true, Names: true, SeqOpts: true}
		c.G = GenGrammar(t, o)
	}
	if c.Grammar == "toks" {
		c.Toks = genC10(t).(*C10Case)
		c.Toks.Pre, c.Toks.Named = 0, false
	}
	input := func() string {
		var in string
		switch c.Grammar {
		case "toks":
			// the same tokens with whitespace of its own in every gap: some runs satisfy the modes,
			// some violate them
			v := &C10Case{Toks: c.Toks.Toks}
			for range c.Toks.Gaps {
				v.Gaps = append(v.Gaps, rapid.SampledFrom([]string{"", "", " ", "\n", " \n", "  ", "\t"}).Draw(t, "tokgap"))
			}
			return v.source()
		case "arith":
			in = genExpr(t, rapid.IntRange(0, 3).Draw(t, "d"))
			if rapid.IntRange(0, 3).Draw(t, "longchain") == 0 {
				// now and then an input longer than anything the process has parsed so far (state that
				// only changes when a size record is broken changes while others are parsing)
				in = "1" + strings.Repeat("+1", rapid.IntRange(10, 90).Draw(t, "chainlen"))
			}
		case "json":
			in = genJSON(t, rapid.IntRange(0, 3).Draw(t, "d"))
		case "nomatch":
			return rapid.SampledFrom([]string{"x", "x,x", "", ",x", "y"}).Draw(t, "nomatchIn")
		case "seqshare":
			return rapid.SampledFrom([]string{"a", "ab", "ab", "b", "", "abx"}).Draw(t, "seqshareIn")
		case "deep":
			d := rapid.SampledFrom([]int{30000, 34000, 36000, 40000}).Draw(t, "deepDepth")
			return strings.Repeat("(", d) + "x" + strings.Repeat(")", d)
		case "lr":
			in = rapid.SampledFrom([]string{"a", "ab", "abbbb", "abbbbbbbbb", "b", "abc", "", "abbx"}).Draw(t, "lr")
			if rapid.IntRange(0, 3).Draw(t, "longlr") == 0 {
				in = "a" + strings.Repeat("b", rapid.IntRange(10, 250).Draw(t, "lrlen"))
			}
		case "idents":
			n := rapid.IntRange(1, 5).Draw(t, "n")
			for i := 0; i < n; i++ {
				in += rapid.SampledFrom(identPool).Draw(t, "ident") + " "
			}
		case "lits":
			n := rapid.IntRange(0, 4).Draw(t, "n")
			for i := 0; i < n; i++ {
				// (a literal may be followed by whitespace in one input and by nothing in another)
				in += rapid.SampledFrom([]string{"1", "2.5", `"s\n"`, "'c'", "1h2m", "true", "nil", "foo", "foo", "foo", "==", "abc", "'", "\"", "9223372036854775808"}).Draw(t, "frag") +
					rapid.SampledFrom([]string{" ", " ", "", "  ", "\n"}).Draw(t, "fragsep")
			}
		default:
			in = GenInput(t, c.G, o)
		}
		// half of the inputs are made to fail: the failure path is where shared error state would live
		if rapid.Bool().Draw(t, "break") {
			if len(in) > 0 && rapid.Bool().Draw(t, "cut") {
				in = in[:rapid.IntRange(0, len(in)-1).Draw(t, "cutAt")]
			} else {
				in += rapid.SampledFrom([]string{"?", ")", "]", " x", "\n?"}).Draw(t, "junk")
			}
		}
		// sometimes one blank becomes a long whitespace run (longer than any threshold a scanner might have)
		if sp := blankIdx(in); len(sp) > 0 && rapid.IntRange(0, 3).Draw(t, "longws") == 0 {
			i := sp[rapid.IntRange(0, len(sp)-1).Draw(t, "longwsAt")]
			run := ""
			for k := rapid.IntRange(16, 40).Draw(t, "longwsLen"); k > 0; k-- {
				run += rapid.SampledFrom([]string{" ", " ", " ", "\n", "\t"}).Draw(t, "longwsCh")
			}
			in = in[:i] + run + in[i+1:]
		}
		return in
	}
	n := rapid.IntRange(2, 8).Draw(t, "goroutines")
	if thorough() {
		n = rapid.IntRange(2, 16).Draw(t, "goroutines16")
	}
	if c.Grammar == "deep" {
		n = rapid.IntRange(2, 3).Draw(t, "deepGoroutines")
	}
	for g := 0; g < n; g++ {
		k := rapid.IntRange(1, 4).Draw(t, "njobs")
		if c.Grammar == "deep" {
			k = 1
		}
		var jobs []string
		for j := 0; j < k; j++ {
			in := input()
			jobs = append(jobs, in)
			// siblings of the same length whose line breaks sit elsewhere (same file name, same size)
			if sp := blankIdx(in); len(sp) >= 2 && rapid.IntRange(0, 2).Draw(t, "siblings") == 0 {
				for _, i := range []int{sp[0], sp[len(sp)/2], sp[len(sp)-1]} {
					jobs = append(jobs, in[:i]+"\n"+in[i+1:])
				}
			}
		}
		c.Jobs = append(c.Jobs, jobs)
		// every goroutine reserves its own words in its own contexts
		c.Keywords = append(c.Keywords, rapid.SliceOfNDistinct(rapid.SampledFrom(identPool), 0, 3, rapid.ID[string]).Draw(t, "keywords"))
	}
	if c.Grammar == "nomatch" || rapid.IntRange(0, 2).Draw(t, "placed") == 0 {
		c.Pre = rapid.SliceOfN(rapid.SampledFrom([]int{0, 1, 2, 3, 7, 40, 300}), 2, 4).Draw(t, "pre")
	}
	return c
}

func c14Parser(c *C14Case) parsley.Parser {
	switch c.Grammar {
	case "arith":
		return arithParser()
	case "json":
		return combinator.Sentence(text.Trim(json.NewParser()))
	case "seqshare":
		root, _ := c14SeqShare()
		return root
	case "deep":
		var e parser.Func
		e = combinator.Any(combinator.SeqOf(terminal.Rune('('), &e, terminal.Rune(')')).Bind(interpreter.Select(1)), terminal.Rune('x'))
		return combinator.Sentence(&e)
	case "nomatch":
		// a rule that is left-recursive only: it returns neither a result nor an error, and Parse
		// then reports that nothing matched, at the start of the run's own file
		var p parser.Func
		p = combinator.Memoize(combinator.SeqOf(&p, terminal.Rune(','), terminal.Rune('x')))
		return &p
	case "lr":
		var p parser.Func
		// (the result handler object of ReturnSingle() belongs to the grammar: every run goes through it)
		p = combinator.Memoize(combinator.Any(combinator.SeqOf(&p, terminal.Rune('b')).HandleResult(combinator.ReturnSingle()).Bind(concatInterp(true)), terminal.Rune('a')))
		return combinator.Sentence(&p)
	case "toks":
		parsers := make([]parsley.Parser, len(c.Toks.Toks))
		for i, ts := range c.Toks.Toks {
			parsers[i] = tokParser(ts)
		}
		return combinator.Sentence(combinator.SeqOf(parsers...).Bind(interpreter.Nil()))
	case "idents":
		return combinator.Sentence(combinator.Many(text.Trim(identParser())).HandleResult(combinator.ReturnSingle()).Bind(concatInterpAny()))
	case "lits":
		lit := combinator.Choice(terminal.Float("f"), terminal.Integer("i"), terminal.String("s", true), terminal.Char("c"),
			terminal.TimeDuration("d"), terminal.Bool("b", "true", "false"), terminal.Nil("n", "nil"), terminal.Word("w", "foo", 1), terminal.Op("=="),
			terminal.Regexp("r", "ID", "id", freshPattern(c.Pattern), 1)).Name("literal")
		return combinator.Sentence(combinator.Many(text.Trim(lit)).Bind(concatInterpAny()))
	}
	return combinator.Sentence(Build(c.G, BuildOpts{Interp: concatInterp(true)}).NT[0])
}

// c14SeqShare: a grammar and one of its parts (a sequence parser value). Other grammars are built
// around the part while the first grammar is in use; building a grammar around a parser value
// does not change what that value does in the grammars it already belongs to.
func c14SeqShare() (root parsley.Parser, part parsley.Parser) {
	pair := combinator.SeqTry(terminal.Rune('a'), terminal.Rune('b')).Bind(concatInterpAny())
	return combinator.Sentence(combinator.Any(pair, terminal.Rune('b'))), pair
}

// c14Around builds some other grammar around a parser value that already belongs to a grammar.
func c14Around(part parsley.Parser, k int) parsley.Parser {
	switch k % 8 {
	case 0:
		return combinator.Sentence(combinator.Single(part))
	case 1:
		return combinator.Sentence(combinator.Optional(part))
	case 2:
		return combinator.Sentence(combinator.Memoize(part))
	case 3:
		return combinator.Sentence(combinator.Many(part).Bind(concatInterpAny()))
	case 4:
		return combinator.Sentence(text.Trim(part))
	case 5:
		return combinator.Sentence(combinator.SuppressError(part))
	case 6:
		return combinator.Sentence(combinator.SepBy(part, terminal.Rune(',')).Bind(concatInterpAny()))
	}
	return combinator.Sentence(combinator.Choice(combinator.Single(part), terminal.Rune('x')))
}

// concatInterpAny evaluates every child and prints the values.
func concatInterpAny() parsley.Interpreter {
	return interpFunc(func(userCtx interface{}, node parsley.NonTerminalNode) (interface{}, parsley.Error) {
		s := ""
		for _, ch := range node.Children() {
			v, err := parsley.EvaluateNode(userCtx, ch)
			if err != nil {
				return nil, err
			}
			s += fmt.Sprintf("%v;", v)
		}
		return s, nil
	})
}

type interpFunc func(userCtx interface{}, node parsley.NonTerminalNode) (interface{}, parsley.Error)

func (f interpFunc) Eval(userCtx interface{}, node parsley.NonTerminalNode) (interface{}, parsley.Error) {
	return f(userCtx, node)
}

var identPool = []string{"if", "for", "else", "foo", "bar", "x", "while", "let"}

// identParser is a keyword-aware identifier: a lower-case word that the context has not reserved.
func identParser() parsley.Parser {
	word := terminal.Regexp("id", "ID", "identifier", "([a-z]+)", 1) // the value is the first group
	return parser.Func(func(ctx *parsley.Context, l data.IntMap, pos parsley.Pos) (parsley.Node, data.IntSet, parsley.Error) {
		n, cp, err := word.Parse(ctx, l, pos)
		if n != nil {
			if w, ok := n.(parsley.LiteralNode).Value().(string); ok && ctx.IsKeyword(w) {
				return nil, cp, parsley.NewErrorf(pos, "%s is a reserved keyword", w)
			}
		}
		return n, cp, err
	})
}

// blankIdx lists the offsets of the single blanks of s.
func blankIdx(s string) []int {
	var sp []int
	for i := 0; i < len(s); i++ {
		if s[i] == ' ' {
			sp = append(sp, i)
		}
	}
	return sp
}

var baselineNo int64

// runAlone is the baseline of one run: the same parse under a file name no other run of this
// process has used, so that nothing remembered under a file's name (or name and size) reaches it;
// the name is put back to "f" in the rendered result.
func runAlone(p parsley.Parser, in string, pre int, keywords ...string) string {
	name := fmt.Sprintf("alone%d", atomic.AddInt64(&baselineNo, 1))
	s, _ := runOneTreeAt(p, name, in, pre, keywords...)
	return strings.ReplaceAll(s, " at "+name+":", " at f:")
}

func runOne(p parsley.Parser, in string, keywords ...string) string {
	return runOneNamed(p, "f", in, keywords...)
}

func runOneNamed(p parsley.Parser, name, in string, keywords ...string) string {
	s, _ := runOneTree(p, name, in, keywords...)
	return s
}

// runOneTree also hands back the tree of the run (parsed with a second context), so that it can be
// read again after other runs have finished.
func runOneTree(p parsley.Parser, name, in string, keywords ...string) (string, parsley.Node) {
	return runOneTreeAt(p, name, in, 0, keywords...)
}

// runOneTreeAt: with pre > 0 the run's file stands between two other files in its set.
func runOneTreeAt(p parsley.Parser, name, in string, pre int, keywords ...string) (string, parsley.Node) {
	f := newFileOwned(name, []byte(in))
	fset := func() *parsley.FileSet {
		if pre > 0 {
			return parsley.NewFileSet(text.NewFile("pre", []byte(strings.Repeat("p\n", pre)[:pre])), f, text.NewFile("post", []byte("q\nq")))
		}
		return parsley.NewFileSet(f)
	}
	ctx := parsley.NewContext(fset(), text.NewReader(f))
	ctx.RegisterKeywords(keywords...)
	v, err := parsley.Evaluate(ctx, p)
	res := fmt.Sprintf("%v / %v / calls=%d", v, err, ctx.CallCount())
	if err != nil && !strings.Contains(err.Error(), " at "+name+":") {
		// whatever fails in a run fails somewhere in the run's own file
		res += " / THE ERROR IS NOT LOCATED IN THE RUN'S OWN FILE"
	}
	// the value belongs to this run: what its owner does with it afterwards is nobody else's business
	scribbleValue(v)
	ctx2 := parsley.NewContext(fset(), text.NewReader(f))
	ctx2.RegisterKeywords(keywords...)
	tree, _ := parsley.Parse(ctx2, p)
	return res, tree
}

// scribbleValue writes into every map of an evaluated value (a caller adding a default key).
func scribbleValue(v interface{}) {
	switch x := v.(type) {
	case map[string]interface{}:
		for _, e := range x {
			scribbleValue(e)
		}
		x["\x00owner"] = "touched"
	case []interface{}:
		for _, e := range x {
			scribbleValue(e)
		}
	}
}

func checkC14(ci interface{}, st *Stats) error {
	c := ci.(*C14Case)
	if len(c.Jobs) < 1 {
		return Discard{"no jobs"}
	}
	if c.Grammar == "toks" && (c.Toks == nil || len(c.Toks.Toks) == 0) {
		return Discard{"no token sequence"}
	}
	if c.Grammar == "generated" {
		if c.G == nil {
			return Discard{"no grammar"}
		}
		c.G.number()
		// screen the work sequentially with the call budget (a budget hit discards the case)
		probe := NewProbe()
		probe.Bound = false
		pp := combinator.Sentence(Build(c.G, BuildOpts{Probe: probe, Interp: concatInterp(true)}).NT[0])
		for _, jobs := range c.Jobs {
			for _, in := range jobs {
				runOne(pp, in)
			}
		}
	}
	p := c14Parser(c)
	var part parsley.Parser
	before := map[string]string{}
	if c.Grammar == "seqshare" {
		// (this grammar's answers are also taken before anything else happens: they must be the same
		// after other grammars have been built around one of its parts)
		p, part = c14SeqShare()
		for _, jobs := range c.Jobs {
			for _, in := range jobs {
				before[in] = runAlone(p, in, 0)
			}
		}
	}
	rounds := 3
	if c.Grammar == "deep" {
		rounds = 1
	}
	if c.Procs > 0 {
		defer runtime.GOMAXPROCS(runtime.GOMAXPROCS(c.Procs))
	}
	if c.Construct {
		for round := 0; round < 6; round++ {
			if err := parallelBuild(4+c.Pattern%5, 8); err != nil {
				return err
			}
		}
	}
	// The concurrent phase runs first, on a cold process state for this case (anything the
	// library caches process-wide is filled while other goroutines are parsing); the sequential
	// baseline is computed afterwards with the same shared parser graph.
	type obs struct {
		g     int
		in    string
		got   string
		fresh bool
		tree  parsley.Node // the tree of the run and its rendering when the run returned
		repr  string
	}
	var wg sync.WaitGroup
	start := make(chan struct{})
	errs := make([]error, len(c.Jobs))
	results := make([][]obs, len(c.Jobs))
	preOf := func(g int) int {
		if len(c.Pre) == 0 {
			return 0
		}
		return c.Pre[g%len(c.Pre)]
	}
	kw := func(g int) []string {
		if g < len(c.Keywords) {
			return c.Keywords[g]
		}
		return nil
	}
	for g, jobs := range c.Jobs {
		wg.Add(1)
		go func(g int, jobs []string) {
			defer wg.Done()
			defer func() {
				if r := recover(); r != nil {
					errs[g] = fmt.Errorf("goroutine %d panicked: %v", g, r)
				}
			}()
			<-start
			for round := 0; round < rounds; round++ {
				for ji, in := range jobs {
					if part != nil {
						// another grammar around a part of the shared one, constructed and used right here
						runOne(c14Around(part, g+round+ji), in)
					}
					got, tree := runOneTreeAt(p, "f", in, preOf(g), kw(g)...)
					results[g] = append(results[g], obs{g, in, got, false, tree, renderFull(tree, 1)})
					if c.Construct {
						switch (g + round) % 4 {
						case 0:
							_ = arithParser()
						case 1:
							_ = json.NewParser()
						case 2:
							// a terminal with a regular expression nobody used before in this process
							re := terminal.Regexp("r", "ID", "id", freshPattern(c.Pattern+1+g*131+round*17+ji), (g+ji)%2)
							runOne(combinator.Sentence(combinator.Many(text.Trim(re)).Bind(concatInterpAny())), "ab cd")
						default:
							q := c14Parser(c)
							got, tree := runOneTreeAt(q, "f", in, preOf(g), kw(g)...)
							results[g] = append(results[g], obs{g, in, got, true, tree, renderFull(tree, 1)})
						}
					}
				}
			}
		}(g, jobs)
	}
	close(start)
	wg.Wait()
	for _, e := range errs {
		if e != nil {
			return e
		}
	}
	// the runs share no mutable state: a tree handed to one run reads the same after all runs ended
	for g := range results {
		for _, o := range results[g] {
			if now := renderFull(o.tree, 1); now != o.repr {
				return fmt.Errorf("goroutine %d, input %q: the tree of this run was changed by another run:\n was %s\n now %s", g, o.in, o.repr, now)
			}
		}
	}
	for in, was := range before {
		if now := runAlone(p, in, 0); now != was {
			return fmt.Errorf("input %q: the grammar gave %s before other grammars were built around one of its parts, and gives %s afterwards", in, was, now)
		}
	}
	failingG := 0
	for g, jobs := range c.Jobs {
		want := map[string]string{} // per goroutine: its keywords are part of its runs
		f := false
		for _, in := range jobs {
			if _, ok := want[in]; !ok {
				want[in] = runAlone(p, in, preOf(g), kw(g)...)
			}
			if !containsNilErr(want[in]) {
				f = true
			}
		}
		if f {
			failingG++
		}
		for _, o := range results[g] {
			if strings.Contains(o.got, "NOT LOCATED IN THE RUN'S OWN FILE") {
				return fmt.Errorf("goroutine %d, input %q (file f behind %d bytes of another file): %s", g, o.in, preOf(g), o.got)
			}
			if o.got != want[o.in] {
				what := "the shared parser"
				if o.fresh {
					what = "a concurrently constructed parser"
				}
				return fmt.Errorf("goroutine %d, input %q: %s gave %s in the concurrent run, alone it gives %s", g, o.in, what, o.got, want[o.in])
			}
		}
	}
	if len(c.Pre) > 0 {
		st.Class("files placed behind other files, at different offsets per goroutine")
	}
	st.Class("grammar " + c.Grammar)
	st.ClassN("goroutines", len(c.Jobs))
	if c.Construct {
		st.Class("with concurrent construction")
	}
	if failingG >= 2 {
		st.NonTrivial()
		st.Class(">= 2 goroutines with failing parses")
	}
	return nil
}

// freshPattern gives a regular expression (matching lower-case words) whose text is very
// likely new to the process.
func freshPattern(n int) string {
	return fmt.Sprintf("([a-z]+)(?:#x{%d}y{%d})?", n%1000+1, (n/1000)%1000+1)
}

// parallelBuild constructs the parts of ONE grammar in several goroutines at the same time
// (each builds some Memoize'd token parsers behind a spin barrier), assembles them into
// Sentence(Many(Choice(all parts))) and parses the concatenation of all tokens. Every token must be
// recognised by its own part: parsers that were handed the same memoization key by a racy
// constructor answer for each other.
func parallelBuild(workers, perWorker int) error {
	parts := make([][]parsley.Parser, workers)
	toks := make([][]string, workers)
	var ready, wg sync.WaitGroup
	var gate int32
	ready.Add(workers)
	for w := 0; w < workers; w++ {
		wg.Add(1)
		go func(w int) {
			defer wg.Done()
			ready.Done()
			for atomic.LoadInt32(&gate) == 0 {
				runtime.Gosched()
			}
			for j := 0; j < perWorker; j++ {
				tok := fmt.Sprintf("<%d.%d>", w, j)
				toks[w] = append(toks[w], tok)
				parts[w] = append(parts[w], combinator.Memoize(terminal.Op(tok)))
			}
		}(w)
	}
	ready.Wait()
	atomic.StoreInt32(&gate, 1)
	wg.Wait()
	var all []parsley.Parser
	var input, want string
	for w := range parts {
		all = append(all, parts[w]...)
		for _, tk := range toks[w] {
			input += tk
			want += tk + ";"
		}
	}
	p := combinator.Sentence(combinator.Many(combinator.Choice(all...)).Bind(concatInterpAny()))
	f := text.NewFile("f", []byte(input))
	ctx := parsley.NewContext(parsley.NewFileSet(f), text.NewReader(f))
	v, err := parsley.Evaluate(ctx, p)
	if err != nil || v != want {
		return fmt.Errorf("a grammar whose %d memoized parts were constructed by %d goroutines at the same time does not recognise its own tokens: value %v, error %v (want %q)", workers*perWorker, workers, v, err, want)
	}
	return nil
}

func containsNilErr(s string) bool {
	// runOne renders "<value> / <nil> / calls=n" on success
	for i := 0; i+9 <= len(s); i++ {
		if s[i:i+9] == " / <nil> " {
			return true
		}
	}
	return false
}

func init() {
	register(&Property{ID: "C14", NewCase: func() interface{} { return &C14Case{} }, Gen: genC14, Check: checkC14})
}

func TestC14(t *testing.T) { RunProperty(t, "C14") }
