package harness

import (
	"errors"
	"fmt"
	"strconv"
	"strings"

	"github.com/opsidian/parsley/ast"
	"github.com/opsidian/parsley/ast/interpreter"
	"github.com/opsidian/parsley/combinator"
	"github.com/opsidian/parsley/data"
	"github.com/opsidian/parsley/parser"
	"github.com/opsidian/parsley/parsley"
	"github.com/opsidian/parsley/text"
	"github.com/opsidian/parsley/text/terminal"
	"pgregory.net/rapid"
)

// arithParser is the classic left-recursive grammar written with the library exactly as the
// README and main_test.go do:
//
//	expr   -> expr (+|-) term | term
//	term   -> term (*|/) factor | factor
//	factor -> INTEGER | ( expr )
//
// with text.Trim around every token. The interpreter evaluates the left operand, the right
// operand, then applies the operator; "/" by zero is reported at the operator's position.
func arithParser() parsley.Parser { return arithParserStyle(0) }

// arithParserStyle: style 0 as described; style 1 is the same language written the way the
// library's JSON example is written: every token left-trimmed only, the non-recursive alternative
// listed first, and text.Trim around the root rule.
func arithParserStyle(style int) parsley.Parser {
	binop := ast.InterpreterFunc(func(userCtx interface{}, node parsley.NonTerminalNode) (interface{}, parsley.Error) {
		ch := node.Children()
		l, err := parsley.EvaluateNode(userCtx, ch[0])
		if err != nil {
			return nil, err
		}
		r, err := parsley.EvaluateNode(userCtx, ch[2])
		if err != nil {
			return nil, err
		}
		a, b := l.(int64), r.(int64)
		switch ch[1].Token() {
		case "+":
			return a + b, nil
		case "-":
			return a - b, nil
		case "*":
			return a * b, nil
		case "/":
			if b == 0 {
				return nil, parsley.NewError(ch[1].Pos(), errors.New("division by zero"))
			}
			if a == -1<<63 && b == -1 {
				return a, nil // two's complement wrap, as the reference does
			}
			return a / b, nil
		}
		panic("bad operator " + ch[1].Token())
	})
	var expr, term, factor parser.Func
	// every token parser first looks at the work done so far: a parse that needs absurdly many
	// parser calls is stopped by a count (see checkArith), not by a time-out
	guard := func(p parsley.Parser) parsley.Parser {
		return parser.Func(func(ctx *parsley.Context, l data.IntMap, pos parsley.Pos) (parsley.Node, data.IntSet, parsley.Error) {
			if lim, ok := ctx.UserContext().(*arithLimit); ok && ctx.CallCount() > lim.calls {
				panic(callLimit{ctx.CallCount()})
			}
			return p.Parse(ctx, l, pos)
		})
	}
	tok := func(p parsley.Parser) parsley.Parser { return text.Trim(guard(p)) }
	if style == 1 {
		tok = func(p parsley.Parser) parsley.Parser { return text.LeftTrim(guard(p), text.WsSpacesNl) }
		factor = combinator.Memoize(combinator.Any(
			tok(terminal.Integer("int")),
			combinator.SeqOf(tok(terminal.Rune('(')), &expr, tok(terminal.Rune(')'))).Bind(interpreter.Select(1)),
		))
		term = combinator.Memoize(combinator.Any(
			&factor,
			combinator.SeqOf(&term, tok(combinator.Any(terminal.Rune('*'), terminal.Rune('/'))), &factor).Bind(binop),
		))
		expr = combinator.Memoize(combinator.Any(
			&term,
			combinator.SeqOf(&expr, tok(combinator.Any(terminal.Rune('+'), terminal.Rune('-'))), &term).Bind(binop),
		))
		return combinator.Sentence(text.Trim(&expr))
	}
	if style == 3 {
		// every token left-trimmed, and the operand a named first-match choice whose first alternative
		// can fail behind skipped whitespace before the second one matches
		tok = func(p parsley.Parser) parsley.Parser { return text.LeftTrim(guard(p), text.WsSpacesNl) }
		factor = combinator.Memoize(combinator.Choice(
			tok(terminal.Integer("int")),
			combinator.SeqOf(tok(terminal.Rune('(')), &expr, tok(terminal.Rune(')'))).Bind(interpreter.Select(1)),
		).Name("operand"))
		term = combinator.Memoize(combinator.Any(
			combinator.SeqOf(&term, tok(combinator.Choice(terminal.Rune('*'), terminal.Rune('/'))), &factor).Bind(binop),
			&factor,
		))
		expr = combinator.Memoize(combinator.Any(
			combinator.SeqOf(&expr, tok(combinator.Choice(terminal.Rune('+'), terminal.Rune('-'))), &term).Bind(binop),
			&term,
		))
		return combinator.Sentence(text.Trim(&expr))
	}
	if style == 2 {
		// the operators are terminal.Op tokens (another node type with its own start and end)
		factor = combinator.Memoize(combinator.Any(
			tok(terminal.Integer("int")),
			combinator.SeqOf(tok(terminal.Op("(")), &expr, tok(terminal.Op(")"))).Bind(interpreter.Select(1)),
		))
		term = combinator.Memoize(combinator.Any(
			combinator.SeqOf(&term, tok(combinator.Choice(terminal.Op("*"), terminal.Op("/"))), &factor).Bind(binop),
			&factor,
		))
		expr = combinator.Memoize(combinator.Any(
			combinator.SeqOf(&expr, tok(combinator.Choice(terminal.Op("+"), terminal.Op("-"))), &term).Bind(binop),
			&term,
		))
		return combinator.Sentence(&expr)
	}
	factor = combinator.Memoize(combinator.Any(
		tok(terminal.Integer("int")),
		combinator.SeqOf(tok(terminal.Rune('(')), &expr, tok(terminal.Rune(')'))).Bind(interpreter.Select(1)),
	))
	term = combinator.Memoize(combinator.Any(
		combinator.SeqOf(&term, tok(combinator.Any(terminal.Rune('*'), terminal.Rune('/'))), &factor).Bind(binop),
		&factor,
	))
	expr = combinator.Memoize(combinator.Any(
		combinator.SeqOf(&expr, tok(combinator.Any(terminal.Rune('+'), terminal.Rune('-'))), &term).Bind(binop),
		&term,
	))
	return combinator.Sentence(&expr)
}

// arithLimit is put into the context's user context by the checks that want a work bound.
type arithLimit struct{ calls int }

// callLimit is the sentinel panic of a call-count guard.
type callLimit struct{ n int }

// ---- reference: hand-written scanner + precedence climbing over int64 ----

type refErr struct {
	msg string
	off int
}

type refP struct {
	s string
	i int
}

func isWS(c byte) bool { return c == ' ' || c == '\t' || c == '\n' || c == '\f' }

func (p *refP) ws() {
	for p.i < len(p.s) && isWS(p.s[p.i]) {
		p.i++
	}
}

var errSyntax = errors.New("syntax error")

func isHex(c byte) bool {
	return c >= '0' && c <= '9' || c >= 'a' && c <= 'f' || c >= 'A' && c <= 'F'
}

func (p *refP) integer() (int64, bool) {
	l := ModelInteger([]byte(p.s), p.i)
	if !l.Match {
		return 0, false
	}
	p.i = l.End
	return l.Value.(int64), true
}

type aval struct {
	v   int64
	err *refErr
}

func (p *refP) factor() (aval, error) {
	p.ws()
	if v, ok := p.integer(); ok {
		p.ws()
		return aval{v: v}, nil
	}
	if p.i < len(p.s) && p.s[p.i] == '(' {
		p.i++
		p.ws()
		v, err := p.expr()
		if err != nil {
			return aval{}, err
		}
		p.ws()
		if p.i < len(p.s) && p.s[p.i] == ')' {
			p.i++
			p.ws()
			return v, nil
		}
		return aval{}, errSyntax
	}
	return aval{}, errSyntax
}

func applyOp(l aval, op byte, opOff int, r aval) aval {
	if l.err != nil {
		return l
	}
	if r.err != nil {
		return r
	}
	switch op {
	case '+':
		return aval{v: l.v + r.v}
	case '-':
		return aval{v: l.v - r.v}
	case '*':
		return aval{v: l.v * r.v}
	}
	if r.v == 0 {
		return aval{err: &refErr{"division by zero", opOff}}
	}
	if l.v == -1<<63 && r.v == -1 {
		return aval{v: l.v}
	}
	return aval{v: l.v / r.v}
}

func (p *refP) term() (aval, error) {
	l, err := p.factor()
	if err != nil {
		return l, err
	}
	for {
		p.ws()
		if p.i < len(p.s) && (p.s[p.i] == '*' || p.s[p.i] == '/') {
			op, off := p.s[p.i], p.i
			p.i++
			r, err := p.factor()
			if err != nil {
				return aval{}, err
			}
			l = applyOp(l, op, off, r)
			continue
		}
		return l, nil
	}
}

func (p *refP) expr() (aval, error) {
	l, err := p.term()
	if err != nil {
		return l, err
	}
	for {
		p.ws()
		if p.i < len(p.s) && (p.s[p.i] == '+' || p.s[p.i] == '-') {
			op, off := p.s[p.i], p.i
			p.i++
			r, err := p.term()
			if err != nil {
				return aval{}, err
			}
			l = applyOp(l, op, off, r)
			continue
		}
		return l, nil
	}
}

// refEval evaluates the CRLF-normalised source; a non-nil error means "ill-formed".
func refEval(src string) (aval, error) {
	s := string(normCRLF([]byte(src)))
	p := &refP{s: s}
	v, err := p.expr()
	if err != nil {
		return v, err
	}
	p.ws()
	if p.i != len(p.s) {
		return v, errSyntax
	}
	return v, nil
}

// ---- generator ----

type exprShape struct {
	mixed    bool // both precedence levels
	chain    int  // longest chain of - or / at one level
	tokens   int
	divZero  bool
	maxDepth int
}

// zeroFree makes genExpr avoid literal zeros (used for long chains, which would otherwise
// nearly always contain a division by a literal zero and never be compared by value).
var zeroFree = false

func genExpr(t *rapid.T, depth int) string {
	ws := func() string {
		return rapid.SampledFrom([]string{"", "", "", " ", "  ", "\t", "\n", " \n ", "\r\n", "\f", " \f", " \t", "\f ", "\t\f\n"}).Draw(t, "ws")
	}
	lit := func() string {
		k := rapid.IntRange(0, 11).Draw(t, "lk")
		sign := rapid.SampledFrom([]string{"", "", "", "-", "+"}).Draw(t, "sign")
		lo := 0
		if zeroFree {
			lo = 1
		}
		switch {
		case k == 0 && !zeroFree:
			return sign + "0"
		case k == 1:
			return sign + fmt.Sprintf("0x%X", rapid.IntRange(lo, 255).Draw(t, "hex"))
		case k == 2:
			return sign + fmt.Sprintf("0%o", rapid.IntRange(lo, 63).Draw(t, "oct"))
		case k == 3:
			return sign + strconv.FormatInt(rapid.Int64Range(1, 1<<62).Draw(t, "big"), 10)
		case k == 5 && rapid.IntRange(0, 5).Draw(t, "underscore") == 0:
			// Go's own literal syntax allows these; the library's integer syntax does not
			return sign + rapid.SampledFrom([]string{"0x_ff", "0x1_0", "0XA_B", "1_000", "0_7", "0b101", "0o17", "1e3"}).Draw(t, "goLit")
		case k == 4 && rapid.Bool().Draw(t, "limit"):
			// the limits of int64 in every base (the smallest value only exists with its sign)
			return rapid.SampledFrom([]string{"-9223372036854775808", "9223372036854775807", "-0x8000000000000000", "0x7FFFFFFFFFFFFFFF",
				"-01000000000000000000000", "0777777777777777777777", "-9223372036854775807", "+9223372036854775807"}).Draw(t, "limitLit")
		default:
			return sign + strconv.Itoa(rapid.IntRange(1, 50).Draw(t, "dec"))
		}
	}
	if depth <= 0 || rapid.IntRange(0, 4).Draw(t, "leaf") == 0 {
		return ws() + lit() + ws()
	}
	switch rapid.IntRange(0, 6).Draw(t, "form") {
	case 0:
		return ws() + "(" + genExpr(t, depth-1) + ")" + ws()
	case 1:
		// a left-associativity chain: a op b op c op d with op in {-,/}
		op := rapid.SampledFrom([]string{"-", "/", "-", "/", "+", "*"}).Draw(t, "chainop")
		n := rapid.IntRange(3, 6).Draw(t, "chainlen")
		parts := make([]string, n)
		for i := range parts {
			parts[i] = genExpr(t, depth-2)
		}
		return strings.Join(parts, op)
	default:
		op := rapid.SampledFrom([]string{"+", "-", "*", "/"}).Draw(t, "op")
		return genExpr(t, depth-1) + op + genExpr(t, depth-1)
	}
}

func mutateSource(t *rapid.T, s string, junk string) string {
	if len(s) == 0 {
		return s
	}
	i := rapid.IntRange(0, len(s)-1).Draw(t, "mi")
	switch rapid.IntRange(0, 4).Draw(t, "mk") {
	case 0:
		return s[:i] + s[i+1:]
	case 1:
		return s[:i] + string(rapid.SampledFrom([]byte(junk)).Draw(t, "mc")) + s[i:]
	case 2:
		return s[:i]
	case 3:
		return s[:i] + s[i:i+1] + s[i:]
	default:
		return s + string(rapid.SampledFrom([]byte(junk)).Draw(t, "mc"))
	}
}

// arithShape classifies a well-formed source for the evidence histogram.
func arithShape(src string) (mixed bool, chain int) {
	hasAdd := strings.ContainsAny(src, "+-")
	hasMul := strings.ContainsAny(src, "*/")
	// longest run of the same non-commutative operator at paren depth 0 of any group (approximation)
	best := 0
	var stack []map[byte]int
	cur := map[byte]int{}
	prevTok := byte('(')
	for i := 0; i < len(src); i++ {
		c := src[i]
		switch {
		case c == '(':
			stack = append(stack, cur)
			cur = map[byte]int{}
			prevTok = '('
		case c == ')':
			if len(stack) > 0 {
				cur = stack[len(stack)-1]
				stack = stack[:len(stack)-1]
			}
			prevTok = ')'
		case c == '-' || c == '/':
			if prevTok == 'n' || prevTok == ')' { // binary use
				cur[c]++
				if cur[c] > best {
					best = cur[c]
				}
				prevTok = 'o'
			}
		case c == '+' || c == '*':
			if prevTok == 'n' || prevTok == ')' {
				prevTok = 'o'
			}
		case isWS(c) || c == '\r':
		default:
			prevTok = 'n'
		}
	}
	return hasAdd && hasMul, best
}
