module verifharness

go 1.23

require (
	github.com/opsidian/parsley v0.0.0
	pgregory.net/rapid v1.3.0
)

replace github.com/opsidian/parsley => /repo
