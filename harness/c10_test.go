package harness

import (
	"bytes"
	"fmt"
	"reflect"
	"strings"
	"testing"

	"github.com/opsidian/parsley/ast"
	"github.com/opsidian/parsley/combinator"
	"github.com/opsidian/parsley/parser"
	"github.com/opsidian/parsley/parsley"
	"github.com/opsidian/parsley/text"
	"github.com/opsidian/parsley/text/terminal"
	"pgregory.net/rapid"
)

// TokSpec is one token of a C10 sequence with its trimming.
type TokSpec struct {
	Kind    int    `json:"kind"` // 0 Rune '(' 1 Op "==" 2 Word "let" 3 Integer 4 String 5 Many1(b) 6 Any(a,ab) 7 Choice(',',Empty) 8 Empty 9 Choice(LeftTrim('(',Left),'[') 10 Choice(';',End()) 11 LeftTrim(Optional('!')) 12 Optional(LeftTrim('!',Left)) 13 Many(b) 14 Float
	Text    string `json:"text"`
	Left    int    `json:"left"`              // -1: no LeftTrim, else the mode
	Right   int    `json:"right"`             // -1: no RightTrim, else the mode
	UseTrim bool   `json:"useTrim,omitempty"` // text.Trim(p) (both sides, spaces-and-newlines)
	Inner   bool   `json:"inner,omitempty"`   // with both modes: LeftTrim(RightTrim(p, right), left) instead of RightTrim(LeftTrim(p, left), right)
}

// C10Case: tokens and the whitespace string of every gap (before the first, between, after the last).
type C10Case struct {
	Toks  []TokSpec `json:"toks"`
	Gaps  []string  `json:"gaps"`
	Named bool      `json:"named,omitempty"` // the root sequence carries a name (SeqOf(...).Name("pair"))
	Pre   int       `json:"pre,omitempty"`   // > 0: the source is the second file of its set, behind a file of that many bytes
}

func (c *C10Case) source() string {
	var sb strings.Builder
	for i, t := range c.Toks {
		sb.WriteString(c.Gaps[i])
		sb.WriteString(t.Text)
	}
	sb.WriteString(c.Gaps[len(c.Toks)])
	return sb.String()
}

func (c *C10Case) Describe() string {
	var parts []string
	for _, t := range c.Toks {
		parts = append(parts, fmt.Sprintf("%q(l=%d r=%d)", t.Text, t.Left, t.Right))
	}
	return fmt.Sprintf("source=%q tokens=%s", c.source(), strings.Join(parts, " "))
}

// wsErrText holds each mode's whitespace error text, learned from the library itself on three
// probe inputs (so a reworded message is not reported; which mode's error is raised, and where,
// is what the property fixes).
var wsErrText = learnWsTexts()

func learnWsTexts() map[int]string {
	out := map[int]string{0: "whitespaces are not allowed", 1: "new line is not allowed", 3: "was expecting a new line"}
	defer func() { _ = recover() }()
	probe := func(mode text.WsMode, in string) string {
		f := text.NewFile("probe", []byte(in))
		_, err := text.NewReader(f).SkipWhitespaces(f.Pos(0), mode)
		if err != nil {
			return err.Error()
		}
		return ""
	}
	if t := probe(text.WsNone, " x"); t != "" {
		out[0] = t
	}
	if t := probe(text.WsSpaces, "\nx"); t != "" {
		out[1] = t
	}
	if t := probe(text.WsSpacesForceNl, " x"); t != "" {
		out[3] = t
	}
	return out
}

// judgeRun: the whitespace run at d[i:] judged by a mode. A form feed counts as a line break,
// like a line feed: the property names both in one breath and the pinned implementation treats
// them alike (reader.go: '\n' || '\f'); see DESIGN.md, C10.
func judgeRun(d []byte, i int, mode int) (end int, ok bool, errOff int, lenient bool) {
	e := i
	lb := -1
	for e < len(d) && isWS(d[e]) {
		if (d[e] == '\n' || d[e] == '\f') && lb < 0 {
			lb = e
		}
		e++
	}
	switch mode {
	case 0:
		return e, e == i, i, false
	case 1:
		return e, lb < 0, lb, false
	case 2:
		return e, true, 0, false
	default:
		return e, lb >= 0, e, false
	}
}

func matchTok(d []byte, i int, ts TokSpec) (int, bool) {
	switch ts.Kind {
	case 0:
		return ModelPrefix(d, i, "(")
	case 1:
		return ModelPrefix(d, i, "==")
	case 2:
		return ModelWord(d, i, "let")
	case 3:
		l := ModelInteger(d, i)
		return l.End, l.Match
	case 14:
		l := ModelFloat(d, i)
		return l.End, l.Match
	case 5:
		e := i
		for e < len(d) && d[e] == 'b' {
			e++
		}
		return e, e > i
	case 13: // zero or more b's: a list node (with a start and an end of its own) also when it is empty
		e := i
		for e < len(d) && d[e] == 'b' {
			e++
		}
		return e, true
	case 12:
		return i, true
	case 11: // an optional '!' (the whitespace in front of it is the model's business)
		if i < len(d) && d[i] == '!' {
			return i + 1, true
		}
		return i, true
	case 10: // ';' or the end of input
		if i < len(d) && d[i] == ';' {
			return i + 1, true
		}
		return i, i == len(d)
	case 9: // '(' or '[' (the whitespace in front of '(' is the model's business)
		if i < len(d) && (d[i] == '(' || d[i] == '[') {
			return i + 1, true
		}
		return i, false
	case 7: // an optional comma: Choice(',', Empty())
		if i < len(d) && d[i] == ',' {
			return i + 1, true
		}
		return i, true
	case 8: // Empty()
		return i, true
	case 6:
		if e, ok := ModelPrefix(d, i, "ab"); ok {
			return e, true // the longest reading; matchTokAll gives both
		}
		return ModelPrefix(d, i, "a")
	default:
		l := ModelString(d, i, false)
		return l.End, l.Match && !l.Lenient
	}
}

// matchTokAll: every end a token parser can return at i (only kind 6 has more than one).
func matchTokAll(d []byte, i int, ts TokSpec) []int {
	if ts.Kind == 11 {
		if i < len(d) && d[i] == '!' {
			return []int{i + 1, i}
		}
		return []int{i}
	}
	if ts.Kind == 6 {
		var out []int
		if e, ok := ModelPrefix(d, i, "a"); ok {
			out = append(out, e)
		}
		if e, ok := ModelPrefix(d, i, "ab"); ok {
			out = append(out, e)
		}
		return out
	}
	if e, ok := matchTok(d, i, ts); ok {
		return []int{e}
	}
	return nil
}

func hasAmbiguousTok(toks []TokSpec) bool {
	for _, t := range toks {
		if t.Kind == 6 || t.Kind == 11 {
			return true
		}
	}
	return false
}

// modelC10Paths is the model for sequences with an ambiguous token: every reading is followed;
// a reading dies on a token mismatch or a violated mode. It reports whether some reading reaches
// the end of input and, when exactly one does, that reading's token spans.
func modelC10Paths(d []byte, toks []TokSpec, lastOnly ...bool) (accept bool, spans [][2]int) {
	type path struct {
		cur   int
		spans [][2]int
	}
	paths := []path{{0, nil}}
	for _, ts := range toks {
		left, right := ts.Left, ts.Right
		if ts.UseTrim {
			left, right = 2, 2
		}
		if ts.Kind == 12 {
			left = -1 // the trimming sits inside the Optional: with the '!' absent nothing is skipped
		}
		var next []path
		for _, p := range paths {
			cur := p.cur
			if left >= 0 {
				e, ok, _, _ := judgeRun(d, cur, left)
				if !ok {
					continue
				}
				cur = e
			}
			ends := matchTokAll(d, cur, ts)
			if len(lastOnly) > 0 && lastOnly[0] && ts.Kind == 6 && right >= 0 && right != 2 && len(ends) > 1 {
				// a right mode that can fail behind a two-result token: RightTrim keeps the verdict of
				// the last reading only, so only that reading is followed (see checkC10)
				ends = ends[len(ends)-1:]
			}
			for _, end := range ends {
				sp := [2]int{cur, end}
				c2 := end
				if right >= 0 {
					e, ok, _, _ := judgeRun(d, c2, right)
					if !ok {
						continue
					}
					c2, sp[1] = e, e
				}
				next = append(next, path{c2, append(append([][2]int{}, p.spans...), sp)})
			}
		}
		paths = next
	}
	var done []path
	for _, p := range paths {
		if p.cur == len(d) {
			done = append(done, p)
		}
	}
	if len(done) == 1 {
		return true, done[0].spans
	}
	return len(done) > 0, nil
}

func tokParser(ts TokSpec) parsley.Parser {
	var p parsley.Parser
	switch ts.Kind {
	case 0:
		p = terminal.Rune('(')
	case 1:
		p = terminal.Op("==")
	case 2:
		p = terminal.Word("w", "let", "let")
	case 3:
		p = terminal.Integer("i")
	case 14:
		p = terminal.Float("fl")
	case 5:
		p = combinator.Many1(terminal.Op("b"))
	case 13:
		p = combinator.Many(terminal.Op("b"))
	case 6:
		p = combinator.Any(terminal.Op("a"), terminal.Op("ab"))
	case 12: // an optional, left-trimmed '!': the whitespace belongs to the '!' and stays when it is absent
		return combinator.Optional(text.LeftTrim(terminal.Rune('!'), text.WsMode(ts.Left)))
	case 11: // two results when the '!' is there: the match and the empty match
		p = combinator.Optional(terminal.Rune('!'))
	case 10:
		p = combinator.Choice(terminal.Rune(';'), parser.End())
	case 9:
		p = combinator.Choice(text.LeftTrim(terminal.Rune('('), text.WsMode(ts.Left)), terminal.Rune('['))
		if ts.Right >= 0 {
			p = text.RightTrim(p, text.WsMode(ts.Right))
		}
		return p
	case 7:
		p = combinator.Choice(terminal.Rune(','), parser.Empty())
	case 8:
		p = parser.Empty()
	default:
		p = terminal.String("s", false)
	}
	if ts.UseTrim {
		return text.Trim(p)
	}
	if ts.Inner && ts.Left >= 0 && ts.Right >= 0 {
		// the other nesting: the same runs, the same modes, the same verdicts (the left run is judged first)
		return text.LeftTrim(text.RightTrim(p, text.WsMode(ts.Right)), text.WsMode(ts.Left))
	}
	if ts.Left >= 0 {
		p = text.LeftTrim(p, text.WsMode(ts.Left))
	}
	if ts.Right >= 0 {
		p = text.RightTrim(p, text.WsMode(ts.Right))
	}
	return p
}

type c10Model struct {
	mismatch bool
	lenient  bool
	wantErr  string
	wantOff  int
	spans    [][2]int
	empty    []bool // the token matched nothing (an EMPTY node has one position: only its end is compared)
}

func modelC10(d []byte, toks []TokSpec) (m c10Model) {
	cur := 0
	// the furthest "was expecting !" an absent optional '!' has left behind: a whitespace error that
	// lies before it is not what gets reported (on a tie the error recorded later - the whitespace
	// error - stands)
	optErr := -1
	defer func() {
		if m.wantErr != "" && optErr > m.wantOff {
			// a not-found error lies further right than the whitespace error: which of the errors
			// recorded further right is reported is C06's subject; here only "it fails" is required
			m.wantErr, m.mismatch = "", true
		}
	}()
	for _, ts := range toks {
		left, right := ts.Left, ts.Right
		if ts.UseTrim {
			left, right = 2, 2
		}
		if ts.Kind == 12 {
			// Optional(LeftTrim('!', mode)) in a source without any '!': the empty match where it stands
			// (with a '!' somewhere the token has several readings and the path model decides)
			m.spans = append(m.spans, [2]int{cur, cur})
			m.empty = append(m.empty, true)
			// its LeftTrim looked for the '!' behind the run; a violated mode moves that error back to
			// the start of the run
			if e, ok, _, _ := judgeRun(d, cur, ts.Left); ok && e > optErr {
				optErr = e
			} else if !ok && cur > optErr {
				optErr = cur
			}
			continue
		}
		if ts.Kind == 9 {
			// Choice(LeftTrim('(', mode), '['): the first alternative's whitespace error stands when
			// the second alternative does not match where the choice started
			e, ok, eo, _ := judgeRun(d, cur, ts.Left)
			switch {
			case e < len(d) && d[e] == '(' && ok:
				cur = e
			case e < len(d) && d[e] == '(':
				m.wantErr, m.wantOff = wsErrText[ts.Left], eo
				return m
			case cur < len(d) && d[cur] == '[':
			default:
				m.mismatch = true
				return m
			}
			left = -1
		}
		if left >= 0 {
			e, ok, eo, len := judgeRun(d, cur, left)
			m.lenient = m.lenient || len
			// the whitespace error is reported when the token itself matches after the run
			if _, tok := matchTok(d, e, ts); !tok {
				m.mismatch = true
				return m
			} else if !ok {
				if end, _ := matchTok(d, e, ts); ts.Inner && end == e && right >= 0 {
					if _, rok, _, _ := judgeRun(d, e, right); !rok {
						// LeftTrim(RightTrim(token)) around a token that matched nothing, both runs
						// violating their modes (the right one is empty and a line break is demanded):
						// two modes are violated and the statement does not say which one is named
						m.mismatch = true
						return m
					}
				}
				m.wantErr, m.wantOff = wsErrText[left], eo
				return m
			}
			cur = e
		}
		end, tok := matchTok(d, cur, ts)
		if !tok {
			m.mismatch = true
			return m
		}
		sp := [2]int{cur, end}
		m.empty = append(m.empty, cur == end && ts.Kind != 13)
		cur = end
		if right >= 0 {
			e, ok, eo, len := judgeRun(d, cur, right)
			m.lenient = m.lenient || len
			if !ok {
				m.wantErr, m.wantOff = wsErrText[right], eo
				return m
			}
			cur = e
			sp[1] = e
		}
		m.spans = append(m.spans, sp)
	}
	if cur != len(d) {
		m.mismatch = true
	}
	return m
}

// buildC10 constructs the grammar of a case once: Sentence(SeqOf(tokens...)).
func buildC10(toks []TokSpec, named bool) parsley.Parser {
	parsers := make([]parsley.Parser, len(toks))
	for i, ts := range toks {
		parsers[i] = tokParser(ts)
	}
	seq := combinator.SeqOf(parsers...)
	if named {
		// a name replaces a not-found error at the sequence start, never a whitespace error
		seq = seq.Name("pair")
	}
	return combinator.Sentence(seq)
}

func parseC10(root parsley.Parser, src string, pre int) (node parsley.Node, base int, err error, perr error) {
	defer func() {
		if r := recover(); r != nil {
			perr = fmt.Errorf("panic: %v", r)
		}
	}()
	ctx, _, base := NewCtxAt(src, pre)
	node, err = parsley.Parse(ctx, root)
	return
}

func tokenValues(node parsley.Node) ([]string, []parsley.Node) {
	seq := node.(*ast.NonTerminalNode).Children()[0].(*ast.NonTerminalNode).Children()
	var out []string
	for _, ch := range seq {
		if ln, ok := ch.(parsley.LiteralNode); ok {
			out = append(out, fmt.Sprintf("%s=%#v", ch.Token(), ln.Value()))
		} else if nt, ok := ch.(parsley.NonTerminalNode); ok {
			out = append(out, fmt.Sprintf("%s[%d]", ch.Token(), len(nt.Children())))
		} else {
			out = append(out, ch.Token())
		}
	}
	return out, seq
}

func checkC10(ci interface{}, st *Stats) error {
	c := ci.(*C10Case)
	if len(c.Toks) == 0 || len(c.Gaps) != len(c.Toks)+1 {
		return Discard{"malformed case"}
	}
	for _, g := range c.Gaps {
		// whitespace, or one of the bytes that look like whitespace and are none (vertical tab, NUL,
		// a lone carriage return, NEL, NBSP, line separator): the model then expects a mismatch
		if strings.Trim(g, " \t\n\f\r\v\x00\u0085\u00a0\u2028`IJL@\u0249\u028a\u030c\u0800") != "" {
			return Discard{"gap is not a whitespace-like string"}
		}
		if strings.Trim(g, " \t\n\f\r") != "" || strings.Contains(strings.ReplaceAll(g, "\r\n", ""), "\r") {
			st.Class("gap with a byte that only looks like whitespace (VT, NUL, lone CR, NEL, NBSP, LS, a whitespace byte with other high bits)")
		}
	}
	src := c.source()
	d := normCRLF([]byte(src))
	// a mode that can fail on the right of a two-result token: RightTrim keeps only the last
	// reading's verdict, so what happens when an earlier reading's run violates the mode is outside
	// the property; what remains inside it: a sequence whose last readings satisfy every mode and
	// reach the end of input is accepted
	failingAmb := false
	for _, t := range c.Toks {
		if t.Kind == 6 && t.Right >= 0 && t.Right != 2 {
			failingAmb = true
		}
	}
	for _, t := range c.Toks {
		if t.Inner && (t.Text == "" || t.Left < 0 || t.Right < 0 || t.UseTrim || t.Kind >= 9) {
			return Discard{"the other nesting is only modelled around a token that consumes something"}
		}
		if t.Kind == 12 && (t.Left < 0 || t.Right >= 0 || t.UseTrim || bytes.Contains(d, []byte("!"))) {
			return Discard{"an optional left-trimmed '!' is only modelled where it is absent"}
		}
		if t.Kind == 11 && (t.Left != 2 || t.Right >= 0 || t.UseTrim) {
			return Discard{"an optional-bang token is left-trimmed in the never-failing mode only"}
		}
		if t.Kind == 10 && (t.Right == 3 || t.Left >= 0 || t.UseTrim) {
			return Discard{"a terminator is only right-trimmed, in a mode an empty run satisfies"}
		}
		if t.Kind == 9 && (t.Left < 0 || t.UseTrim || hasAmbiguousTok(c.Toks)) {
			return Discard{"a choice token needs its inner mode and no two-result neighbour"}
		}
	}
	m := modelC10(d, c.Toks)
	// one grammar value serves every parse of the case; it has a history: the same tokens with the
	// opposite whitespace (every empty gap filled, every filled gap emptied) were parsed with it first
	root := buildC10(c.Toks, c.Named)
	decoy := &C10Case{Toks: c.Toks}
	for _, g := range c.Gaps {
		if g == "" {
			decoy.Gaps = append(decoy.Gaps, " \n ")
		} else {
			decoy.Gaps = append(decoy.Gaps, "")
		}
	}
	if _, _, _, perr := parseC10(root, decoy.source(), 0); perr != nil {
		return perr
	}
	if last := c.Toks[len(c.Toks)-1]; last.Kind == 10 {
		// and the terminator was once followed by whitespace its mode may reject
		d2 := &C10Case{Toks: append(append([]TokSpec{}, c.Toks[:len(c.Toks)-1]...), TokSpec{Kind: 10, Text: ";", Left: -1, Right: last.Right}), Gaps: append(append([]string{}, c.Gaps[:len(c.Gaps)-1]...), " \n")}
		if _, _, _, perr := parseC10(root, d2.source(), 0); perr != nil {
			return perr
		}
	}
	node, base, err, perr := parseC10(root, src, c.Pre)
	if perr != nil {
		return perr
	}
	if (node == nil) == (err == nil) {
		return fmt.Errorf("Parse returned node=%v error=%v", node, err)
	}
	if failingAmb {
		st.Class("two-result token under a right mode that can fail (only: the last readings' parse is accepted)")
		if accept, _ := modelC10Paths(d, c.Toks, true); accept {
			st.NonTrivial()
			if err != nil {
				return fmt.Errorf("with a two-result token under a right mode that can fail: its last reading satisfies every mode and reaches the end of input, but Parse failed: %v", err)
			}
		}
		return nil
	}
	if hasAmbiguousTok(c.Toks) {
		st.Class("sequence with a two-result token (all readings followed)")
		accept, spans := modelC10Paths(d, c.Toks)
		if accept != (err == nil) {
			return fmt.Errorf("with a two-result token: accepted=%v, but some reading reaches the end of input with every mode satisfied: %v (error %v)", err == nil, accept, err)
		}
		if accept {
			st.NonTrivial()
			if spans != nil {
				_, seq := tokenValues(node)
				if len(seq) != len(spans) {
					return fmt.Errorf("parsed %d tokens, want %d", len(seq), len(spans))
				}
				for i, ch := range seq {
					_, isEmpty := ch.(ast.EmptyNode) // one position only: its end is compared
					if (int(ch.Pos())-base != spans[i][0] && !isEmpty) || int(ch.ReaderPos())-base != spans[i][1] {
						return fmt.Errorf("token %d spans %d..%d, the only reading that reaches the end of input has %d..%d", i, int(ch.Pos())-base, int(ch.ReaderPos())-base, spans[i][0], spans[i][1])
					}
				}
			}
		}
		return nil
	}
	nonEmptyGap, otherMode := false, false
	for _, g := range c.Gaps {
		if g != "" {
			nonEmptyGap = true
		}
	}
	for _, t := range c.Toks {
		if (t.Left >= 0 && t.Left != 2) || (t.Right >= 0 && t.Right != 2) {
			otherMode = true
		}
	}
	if nonEmptyGap && otherMode {
		st.NonTrivial()
	}
	if c.Pre > 0 {
		st.Class("source is the second file of its set")
	}
	switch {
	case m.lenient:
		st.Class("verdict depends on form feed as line break (only: no panic)")
		return nil
	case m.mismatch:
		st.Class("token mismatch")
		if err == nil {
			return fmt.Errorf("the sequence does not match (token mismatch or trailing input) but Parse succeeded: %s", RenderResult(node, 1))
		}
		return nil
	case m.wantErr != "":
		st.Class("whitespace error: " + m.wantErr)
		l, col := lineCol(string(d), m.wantOff)
		exp := fmt.Sprintf("failed to parse the input: %s at f:%d:%d", m.wantErr, l, col)
		if err == nil || err.Error() != exp {
			return fmt.Errorf("want error %q, got node %v / error %v", exp, node != nil, err)
		}
		return nil
	}
	st.Class("accepted")
	if err != nil {
		return fmt.Errorf("every whitespace run satisfies its mode and every token matches, but Parse failed: %v", err)
	}
	vals, seq := tokenValues(node)
	if len(seq) != len(c.Toks) {
		return fmt.Errorf("parsed %d tokens, want %d", len(seq), len(c.Toks))
	}
	for i, ch := range seq {
		if (int(ch.Pos())-base != m.spans[i][0] && !m.empty[i]) || int(ch.ReaderPos())-base != m.spans[i][1] {
			return fmt.Errorf("token %d spans %d..%d, want %d..%d (only a right-trimmed node's end moves past the run)", i, int(ch.Pos())-base, int(ch.ReaderPos())-base, m.spans[i][0], m.spans[i][1])
		}
	}
	// inside a composite token nothing moves: only the right-trimmed node's own end goes past the run
	for i, ch := range seq {
		if nt, ok := ch.(parsley.NonTerminalNode); ok && (c.Toks[i].Kind == 5 || c.Toks[i].Kind == 13) {
			at := m.spans[i][0]
			for k, b := range nt.Children() {
				if int(b.Pos())-base != at+k || int(b.ReaderPos())-base != at+k+1 {
					return fmt.Errorf("token %d (a run of b's at %d): its element %d spans %d..%d, want %d..%d", i, at, k, int(b.Pos())-base, int(b.ReaderPos())-base, at+k, at+k+1)
				}
			}
		}
	}
	// metamorphic: the same tokens with every removable run removed give the same result
	gaps2 := make([]string, len(c.Gaps))
	removed := false
	emptyTok := false
	for _, t := range c.Toks {
		if t.Text == "" {
			emptyTok = true // its neighbours may merge when the runs around it go: no whitespace-free twin
		}
	}
	for i := range c.Gaps {
		keep := false
		if i > 0 && i < len(c.Toks) {
			a, b := c.Toks[i-1], c.Toks[i]
			if (a.Kind == 2 || a.Kind == 3 || a.Kind == 14) && (b.Kind == 2 || b.Kind == 3 || b.Kind == 14) || (a.Kind == 5 || a.Kind == 13) && (b.Kind == 5 || b.Kind == 13) {
				keep = true // word/number neighbours (and two b-runs) would merge
			}
			if a.Right == 3 || b.Left == 3 {
				keep = true // a forced line break is not removable
			}
		}
		if i == 0 && c.Toks[0].Left == 3 || i == len(c.Toks) && c.Toks[len(c.Toks)-1].Right == 3 {
			keep = true
		}
		if keep {
			gaps2[i] = c.Gaps[i]
		} else if c.Gaps[i] != "" {
			removed = true
		}
	}
	if emptyTok {
		st.Class("accepted, with a token that matched nothing")
	}
	if removed && !emptyTok {
		c2 := &C10Case{Toks: c.Toks, Gaps: gaps2}
		src2 := c2.source()
		if m2 := modelC10(normCRLF([]byte(src2)), c.Toks); !m2.mismatch && m2.wantErr == "" && !m2.lenient {
			node2, _, err2, perr2 := parseC10(root, src2, c.Pre)
			if perr2 != nil {
				return perr2
			}
			if err2 != nil {
				return fmt.Errorf("without the permitted whitespace (%q) the parse fails: %v", src2, err2)
			}
			vals2, _ := tokenValues(node2)
			if !reflect.DeepEqual(vals, vals2) {
				return fmt.Errorf("inserting permitted whitespace changed the result: %v (with) vs %v (without, %q)", vals, vals2, src2)
			}
			st.Class("accepted, compared with the whitespace-free parse")
		}
	}
	return nil
}

func genC10(t *rapid.T) interface{} {
	c := &C10Case{}
	n := rapid.IntRange(1, 5).Draw(t, "ntok")
	mode := func(label string) int { return rapid.SampledFrom([]int{0, 1, 1, 2, 2, 2, 3}).Draw(t, label) }
	for i := 0; i < n; i++ {
		ts := TokSpec{Left: -1, Right: -1}
		ts.Kind = rapid.SampledFrom([]int{0, 1, 2, 3, 4, 0, 1, 2, 3, 4, 14, 14, 5, 5, 6, 7, 7, 8, 9, 9, 11, 11, 12, 12, 13, 13}).Draw(t, "kind")
		switch ts.Kind {
		case 0:
			ts.Text = "("
		case 1:
			ts.Text = "=="
		case 2:
			ts.Text = "let"
		case 3:
			ts.Text = fmt.Sprint(rapid.IntRange(0, 99).Draw(t, "int"))
		case 14:
			ts.Text = rapid.SampledFrom([]string{"1.5", "0.25", "2.0e3", "10.0", "3.5E-2"}).Draw(t, "float")
		case 4:
			ts.Text = rapid.SampledFrom([]string{`"s"`, `""`, `"a b"`, `"\n"`, `"\t\t"`, `"é"`, `"\u0041b"`, `"x\\y"`}).Draw(t, "str")
		case 5:
			ts.Text = rapid.SampledFrom([]string{"b", "bb", "bbb"}).Draw(t, "bs")
		case 13:
			ts.Text = rapid.SampledFrom([]string{"", "", "b", "bb"}).Draw(t, "bs0")
		case 6:
			ts.Text = rapid.SampledFrom([]string{"a", "ab", "ab"}).Draw(t, "amb")
		case 12:
			ts.Text = "" // absent (the sources of this generator have a '!' only where kind 11 puts one)
		case 11:
			ts.Text = rapid.SampledFrom([]string{"!", ""}).Draw(t, "bang")
		case 9:
			ts.Text = rapid.SampledFrom([]string{"(", "(", "["}).Draw(t, "paren")
		case 7:
			ts.Text = rapid.SampledFrom([]string{",", ""}).Draw(t, "comma")
		case 8:
			ts.Text = ""
		}
		switch rapid.IntRange(0, 4).Draw(t, "trimkind") {
		case 0:
			ts.Left = mode("lm")
		case 1:
			ts.Right = mode("rm")
		case 2:
			ts.Left, ts.Right = mode("lm"), mode("rm")
			// (only around a token that consumes something: around an empty match the inner RightTrim's
			// error lies where the LeftTrim's operand started, and LeftTrim then lets it pass)
			ts.Inner = rapid.Bool().Draw(t, "innerNesting") && ts.Text != ""
		case 3:
			ts.UseTrim = true
		}
		if ts.Kind == 6 && ts.Right >= 0 && rapid.Bool().Draw(t, "ambRightSafe") {
			ts.Right = 2
		}
		if ts.Kind == 12 {
			ts.UseTrim, ts.Right = false, -1
			if ts.Left < 0 {
				ts.Left = mode("lm12")
			}
		}
		if ts.Kind == 11 {
			// LeftTrim(Optional('!')) in the mode no run violates; nothing on the right (Optional hands
			// its operand's error on together with the empty match, and RightTrim then leaves the run alone)
			ts.UseTrim, ts.Left, ts.Right = false, 2, -1
		}
		if ts.Kind == 9 {
			// the left mode lives inside the choice, on its first alternative
			ts.UseTrim = false
			if ts.Left < 0 {
				ts.Left = mode("lm9")
			}
		}
		c.Toks = append(c.Toks, ts)
	}
	if rapid.IntRange(0, 5).Draw(t, "terminator") == 0 {
		// a statement terminator: ';' or the end of input, right-trimmed in a mode an empty run satisfies
		// (an end-of-input node has no end to move: RightTrim does not look behind it)
		ts := TokSpec{Kind: 10, Left: -1, Right: rapid.SampledFrom([]int{-1, 0, 1, 2}).Draw(t, "termMode")}
		ts.Text = rapid.SampledFrom([]string{";", ""}).Draw(t, "termText")
		c.Toks = append(c.Toks, ts)
		n++
	}
	ws := func() string {
		k := rapid.IntRange(1, 3).Draw(t, "wsn")
		if rapid.IntRange(0, 11).Draw(t, "longws") == 5 {
			k = rapid.IntRange(15, 40).Draw(t, "wslong") // longer than any word-at-a-time scan
		}
		s := ""
		for i := 0; i < k; i++ {
			s += rapid.SampledFrom([]string{" ", " ", "\t", "\n", "\n", "\r\n", "\f"}).Draw(t, "wsc")
		}
		return s
	}
	for i := 0; i <= n; i++ {
		g := ""
		// prefer gaps the neighbouring modes can accept, but keep violating ones frequent
		canHold := (i < n && (c.Toks[i].Left >= 0 || c.Toks[i].UseTrim)) || (i > 0 && (c.Toks[i-1].Right >= 0 || c.Toks[i-1].UseTrim))
		if canHold && rapid.IntRange(0, 2).Draw(t, "gap") > 0 || !canHold && rapid.IntRange(0, 9).Draw(t, "straygap") == 0 {
			g = ws()
		}
		if g == "" && i > 0 && i < n {
			a, b := c.Toks[i-1], c.Toks[i]
			if (a.Kind == 2 || a.Kind == 3 || a.Kind == 14) && (b.Kind == 2 || b.Kind == 3 || b.Kind == 14) || (a.Kind == 5 || a.Kind == 13) && (b.Kind == 5 || b.Kind == 13) {
				g = " " // neighbours that would merge into one token
			}
		}
		if rapid.IntRange(0, 24).Draw(t, "lookalike") == 7 {
			junk := rapid.SampledFrom([]string{"\v", "\v", "\x00", "\r", "\u0085", "\u00a0", "\u2028",
				// a whitespace byte plus 64, 128 or 192 (a table or bit set indexed by six bits of the byte)
				"`", "I", "J", "L", "@", "\u0249", "\u028a", "\u030c", "\u0800"}).Draw(t, "lookalikeByte")
			k := rapid.IntRange(0, len(g)).Draw(t, "lookalikeAt")
			g = g[:k] + junk + g[k:]
		}
		c.Gaps = append(c.Gaps, g)
	}
	c.Named = rapid.IntRange(0, 2).Draw(t, "named") == 0
	switch rapid.IntRange(0, 5).Draw(t, "place") {
	case 0, 1:
		c.Pre = rapid.IntRange(1, 12).Draw(t, "pre")
	case 2:
		c.Pre = rapid.SampledFrom([]int{65533, 65536, 70001}).Draw(t, "prehuge")
	}
	return c
}

func init() {
	register(&Property{ID: "C10", NewCase: func() interface{} { return &C10Case{} }, Gen: genC10, Check: checkC10})
}

func TestC10(t *testing.T) { RunProperty(t, "C10") }
