package harness

import (
	"errors"
	"fmt"
	"strings"
	"testing"

	"github.com/opsidian/parsley/ast"
	"github.com/opsidian/parsley/ast/interpreter"
	"github.com/opsidian/parsley/data"
	"github.com/opsidian/parsley/parser"
	"github.com/opsidian/parsley/parsley"
	"github.com/opsidian/parsley/text"
	"pgregory.net/rapid"
)

// TNode is the generator's own tree; the library's nodes are built from it for every pass,
// and a traversal model over it predicts the exact callback sequences.
type TNode struct {
	Kind int      `json:"kind"` // 0 terminal, 1 empty, 2 non-terminal, 4 user-defined Walkable + StaticCheckable node
	Caps int      `json:"caps"` // non-terminal: bit0 checker, bit1 transformer; 4 = interpreter.Select(Sel); 5 = interpreter.Array()
	Sel  int      `json:"sel,omitempty"`
	Kids []*TNode `json:"kids,omitempty"`
	// OwnWalk (kind 2 with children): the node is a user type that embeds the library's non-terminal
	// node and brings its own Walk: it is a NonTerminalNode AND Walkable
	OwnWalk bool `json:"ownWalk,omitempty"`
	// Plain (kind 4): the user-defined node has no Walk of its own but shows its children through
	// Children(): a NonTerminalNode that is not the library's type
	Plain bool `json:"plain,omitempty"`
	id    int
}

type C13Case struct {
	Root          *TNode `json:"root"`
	Alts          int    `json:"alts"`                    // > 0: the root is a list of 1+Alts alternatives
	StopAt        int    `json:"stopAt"`                  // Walk: node index (post-order) where the callback returns true, -1 never
	FailTransNode bool   `json:"failTransNode,omitempty"` // the failing transformer returns its node together with the error
	FailCheck     int    `json:"failCheck"`               // index among checkers, -1 none
	FailTrans     int    `json:"failTrans"`               // index among transformers reached, -1 none
	FailEval      int    `json:"failEval"`                // node id whose Eval fails, -1 none
	CtxErr        bool   `json:"ctxErr,omitempty"`        // Parse pass: the (successful) parser left a failed attempt's error in the context, beyond every node
}

func (n *TNode) String() string {
	switch n.Kind {
	case 0:
		return "t"
	case 1:
		return "ε"
	}
	if n.Kind == 4 {
		parts := make([]string, len(n.Kids))
		for i, k := range n.Kids {
			parts[i] = k.String()
		}
		return fmt.Sprintf("Block(%s)", strings.Join(parts, " "))
	}
	parts := make([]string, len(n.Kids))
	for i, k := range n.Kids {
		parts[i] = k.String()
	}
	c := []string{"E", "E+C", "E+T", "E+C+T", "Select", "Array", "E+keep", "nil"}[n.Caps%8]
	return fmt.Sprintf("%s(%s)", c, strings.Join(parts, " "))
}

func (c *C13Case) Describe() string {
	return fmt.Sprintf("tree=%s alts=%d stopAt=%d failCheck=%d failTrans=%d failEval=%d", c.Root, c.Alts, c.StopAt, c.FailCheck, c.FailTrans, c.FailEval)
}

func genTNode(t *rapid.T, depth int) *TNode {
	k := rapid.IntRange(0, 7).Draw(t, "k")
	if depth <= 0 || k == 0 {
		return &TNode{Kind: 0}
	}
	if k == 1 {
		return &TNode{Kind: 1}
	}
	if rapid.IntRange(0, 9).Draw(t, "block") == 0 {
		n := &TNode{Kind: 4, Plain: rapid.IntRange(0, 2).Draw(t, "plainBlock") == 0}
		for i := rapid.IntRange(0, 3).Draw(t, "nk"); i > 0; i-- {
			n.Kids = append(n.Kids, genTNode(t, depth-1))
		}
		return n
	}
	// (7: no interpreter at all - a sequence nobody called Bind on: it can be walked, checked and
	// transformed like any node without capabilities; it cannot be evaluated)
	n := &TNode{Kind: 2, Caps: rapid.SampledFrom([]int{0, 1, 1, 2, 3, 4, 5, 6, 0, 1, 2, 3, 7}).Draw(t, "caps")}
	n.OwnWalk = rapid.IntRange(0, 7).Draw(t, "ownWalk") == 0
	nk := rapid.IntRange(0, 4).Draw(t, "nk")
	for i := 0; i < nk; i++ {
		n.Kids = append(n.Kids, genTNode(t, depth-1))
	}
	if n.Caps == 4 {
		if nk == 0 {
			n.Caps = 1
		} else {
			n.Sel = rapid.IntRange(0, nk-1).Draw(t, "sel")
		}
	}
	return n
}

func genC13(t *rapid.T) interface{} {
	depth := rapid.SampledFrom([]int{1, 2, 3, 3, 4, 4, 5}).Draw(t, "depth")
	root := &TNode{Kind: 2, Caps: rapid.SampledFrom([]int{0, 1, 1, 2, 3, 4, 5, 6}).Draw(t, "rootcaps")}
	nk := rapid.IntRange(1, 4).Draw(t, "rootkids")
	for i := 0; i < nk; i++ {
		root.Kids = append(root.Kids, genTNode(t, depth-1))
	}
	if root.Caps == 4 {
		root.Sel = rapid.IntRange(0, nk-1).Draw(t, "rootsel")
	}
	if rapid.IntRange(0, 15).Draw(t, "leafroot") == 0 {
		root = genTNode(t, 0)
	}
	if rapid.IntRange(0, 14).Draw(t, "deep") == 7 {
		// a long root-to-leaf path: the tree hangs below a chain of single-child non-terminals
		for k := rapid.SampledFrom([]int{10, 15, 16, 17, 18, 31, 32, 33, 40, 63, 64, 65, 70}).Draw(t, "chain"); k > 0; k-- {
			root = &TNode{Kind: 2, Caps: rapid.SampledFrom([]int{0, 0, 1, 5}).Draw(t, "chaincaps"), Kids: []*TNode{root}}
		}
	}
	c := &C13Case{Root: root}
	if rapid.IntRange(0, 4).Draw(t, "list") == 0 {
		c.Alts = rapid.IntRange(1, 2).Draw(t, "alts")
	}
	c.StopAt = rapid.IntRange(-1, 30).Draw(t, "stopAt")
	c.FailCheck = rapid.IntRange(-1, 6).Draw(t, "failCheck")
	c.FailTrans = rapid.IntRange(-1, 4).Draw(t, "failTrans")
	c.FailEval = rapid.IntRange(-1, 20).Draw(t, "failEval")
	if rapid.Bool().Draw(t, "noinject") {
		c.FailCheck, c.FailTrans, c.FailEval = -1, -1, -1
	}
	c.CtxErr = rapid.Bool().Draw(t, "ctxErr")
	c.FailTransNode = rapid.Bool().Draw(t, "failTransNode")
	return c
}

// ---- instrumented interpreters ----

type env13 struct {
	log                []string
	built              map[int]parsley.Node
	inner              map[int]parsley.Node // OwnWalk nodes: the embedded library node (what interpreters are handed)
	failCheck          int                  // node id
	pass               int                  // > 0: schemas returned by the checkers carry a mark (second StaticCheck of one tree)
	failTrans          int
	failTransKeepsNode bool
	failEval           int
	problems           []string
}

type baseI struct {
	e  *env13
	id int
}

func (b baseI) Eval(userCtx interface{}, node parsley.NonTerminalNode) (interface{}, parsley.Error) {
	b.e.log = append(b.e.log, fmt.Sprintf("eval %d", b.id))
	if node != b.e.built[b.id] && node != b.e.inner[b.id] {
		b.e.problems = append(b.e.problems, fmt.Sprintf("the interpreter of node %d was handed a different node", b.id))
	}
	if b.e.failEval == b.id {
		return nil, parsley.NewError(node.Pos(), errors.New("eval failed"))
	}
	s := ""
	for _, c := range node.Children() {
		v, err := parsley.EvaluateNode(userCtx, c)
		if err != nil {
			return nil, err
		}
		s += fmt.Sprint(v)
	}
	return fmt.Sprintf("(%d:%s)", b.id, s), nil
}

type checkI struct{ baseI }

func (c checkI) StaticCheck(userCtx interface{}, node parsley.NonTerminalNode) (interface{}, parsley.Error) {
	var cs []string
	for _, ch := range node.Children() {
		cs = append(cs, fmt.Sprint(ch.Schema()))
	}
	c.e.log = append(c.e.log, fmt.Sprintf("check %d [%s]", c.id, strings.Join(cs, ",")))
	if node != c.e.built[c.id] && node != c.e.inner[c.id] {
		c.e.problems = append(c.e.problems, fmt.Sprintf("the checker of node %d was handed a different node", c.id))
	}
	if c.e.failCheck == c.id {
		return "BAD", parsley.NewError(node.Pos(), errors.New("check failed"))
	}
	return fmt.Sprintf("S%d%s", c.id, passMark(c.e.pass)), nil
}

type transI struct{ baseI }

func (c transI) TransformNode(userCtx interface{}, node parsley.Node) (parsley.Node, parsley.Error) {
	c.e.log = append(c.e.log, fmt.Sprintf("trans %d", c.id))
	if node != c.e.built[c.id] && node != c.e.inner[c.id] {
		c.e.problems = append(c.e.problems, fmt.Sprintf("the transformer of node %d was handed a different node", c.id))
	}
	if c.e.failTrans == c.id {
		if c.e.failTransKeepsNode {
			// the "return node, err" habit: the error decides, whatever comes with it
			return node, parsley.NewError(node.Pos(), errors.New("trans failed"))
		}
		return nil, parsley.NewError(node.Pos(), errors.New("trans failed"))
	}
	return ast.NewTerminalNode(nil, "T", fmt.Sprintf("t%d", c.id), node.Pos(), node.ReaderPos()), nil
}

// identI has a transformer that keeps its node: it returns the very node it was handed, and with
// that decides that nothing below is transformed either.
type identI struct{ baseI }

func (c identI) TransformNode(userCtx interface{}, node parsley.Node) (parsley.Node, parsley.Error) {
	c.e.log = append(c.e.log, fmt.Sprintf("trans %d", c.id))
	if node != c.e.built[c.id] && node != c.e.inner[c.id] {
		c.e.problems = append(c.e.problems, fmt.Sprintf("the transformer of node %d was handed a different node", c.id))
	}
	if c.e.failTrans == c.id {
		return nil, parsley.NewError(node.Pos(), errors.New("trans failed"))
	}
	return node, nil
}

type bothI struct{ checkI }

func (c bothI) TransformNode(userCtx interface{}, node parsley.Node) (parsley.Node, parsley.Error) {
	return transI{c.baseI}.TransformNode(userCtx, node)
}

// blockNode is a user-defined node: not a NonTerminalNode (the library cannot see its children),
// but Walkable (it walks them itself) and StaticCheckable.
type blockNode struct {
	e         *env13
	id        int
	kids      []parsley.Node
	pos, rpos parsley.Pos
	schema    interface{}
}

func (b *blockNode) Token() string          { return "BLOCK" }
func (b *blockNode) Schema() interface{}    { return b.schema }
func (b *blockNode) Pos() parsley.Pos       { return b.pos }
func (b *blockNode) ReaderPos() parsley.Pos { return b.rpos }
func (b *blockNode) Walk(f func(n parsley.Node) bool) bool {
	for _, k := range b.kids {
		if parsley.Walk(k, f) {
			return true
		}
	}
	return false
}
func (b *blockNode) StaticCheck(userCtx interface{}) parsley.Error {
	var cs []string
	for _, ch := range b.kids {
		cs = append(cs, fmt.Sprint(ch.Schema()))
	}
	b.e.log = append(b.e.log, fmt.Sprintf("check %d [%s]", b.id, strings.Join(cs, ",")))
	if b.e.failCheck == b.id {
		return parsley.NewError(b.pos, errors.New("check failed"))
	}
	b.schema = fmt.Sprintf("S%d%s", b.id, passMark(b.e.pass))
	return nil
}

func passMark(pass int) string {
	if pass > 0 {
		return "'"
	}
	return ""
}

// walkNT is a user-defined node that is both a NonTerminalNode (it embeds the library's) and
// Walkable (its own Walk visits the children).
type walkNT struct{ *ast.NonTerminalNode }

func (w *walkNT) Walk(f func(n parsley.Node) bool) bool {
	for _, k := range w.Children() {
		if parsley.Walk(k, f) {
			return true
		}
	}
	return false
}

// plainBlock is a user-defined node that implements parsley.NonTerminalNode (Children) and
// StaticCheckable, but brings no Walk: the library has to walk its children itself.
type plainBlock struct{ b *blockNode }

func (p *plainBlock) Token() string            { return p.b.Token() }
func (p *plainBlock) Schema() interface{}      { return p.b.Schema() }
func (p *plainBlock) Pos() parsley.Pos         { return p.b.Pos() }
func (p *plainBlock) ReaderPos() parsley.Pos   { return p.b.ReaderPos() }
func (p *plainBlock) Children() []parsley.Node { return p.b.kids }
func (p *plainBlock) Value(userCtx interface{}) (interface{}, parsley.Error) {
	return nil, parsley.NewError(p.b.pos, parsley.ErrNoValue)
}
func (p *plainBlock) StaticCheck(userCtx interface{}) parsley.Error { return p.b.StaticCheck(userCtx) }

// number assigns pre-order ids.
func numberT(n *TNode, next *int) {
	n.id = *next
	*next++
	for _, k := range n.Kids {
		numberT(k, next)
	}
}

func buildT(n *TNode, e *env13, pos *int) parsley.Node {
	var out parsley.Node
	switch n.Kind {
	case 0:
		out = ast.NewTerminalNode(fmt.Sprintf("ts%d", n.id), "X", fmt.Sprintf("v%d", n.id), parsley.Pos(*pos), parsley.Pos(*pos+1))
		*pos++
	case 1:
		out = ast.EmptyNode(*pos)
	case 4:
		blk := &blockNode{e: e, id: n.id, pos: parsley.Pos(*pos)}
		for _, k := range n.Kids {
			blk.kids = append(blk.kids, buildT(k, e, pos))
		}
		blk.rpos = parsley.Pos(*pos)
		out = blk
		if n.Plain {
			out = &plainBlock{blk}
		}
	default:
		start := *pos
		var kids []parsley.Node
		for _, k := range n.Kids {
			kids = append(kids, buildT(k, e, pos))
		}
		var in parsley.Interpreter
		b := baseI{e, n.id}
		switch n.Caps {
		case 0:
			in = b
		case 1:
			in = checkI{b}
		case 2:
			in = transI{b}
		case 3:
			in = bothI{checkI{b}}
		case 6:
			in = identI{b}
		case 7:
			in = nil
		case 4:
			in = interpreter.Select(n.Sel)
		case 5:
			in = interpreter.Array()
		}
		if len(kids) == 0 {
			out = ast.NewEmptyNonTerminalNode("NT", parsley.Pos(start), in)
		} else if n.OwnWalk {
			nt := ast.NewNonTerminalNode("NT", kids, in)
			e.inner[n.id] = nt
			out = &walkNT{nt}
		} else {
			out = ast.NewNonTerminalNode("NT", kids, in)
		}
	}
	e.built[n.id] = out
	return out
}

func postOrder(n *TNode, out *[]*TNode) {
	for _, k := range n.Kids {
		postOrder(k, out)
	}
	*out = append(*out, n)
}

func treeDepth(n *TNode) int {
	d := 0
	for _, k := range n.Kids {
		if x := treeDepth(k); x > d {
			d = x
		}
	}
	return d + 1
}

func (c *C13Case) fresh() (*env13, parsley.Node, []*TNode) {
	e := &env13{built: map[int]parsley.Node{}, inner: map[int]parsley.Node{}, failCheck: -1, failTrans: -1, failEval: -1, failTransKeepsNode: c.FailTransNode}
	next := 0
	numberT(c.Root, &next)
	pos := 1
	root := buildT(c.Root, e, &pos)
	var post []*TNode
	postOrder(c.Root, &post)
	if c.Alts > 0 {
		nl := ast.NodeList{root}
		for i := 0; i < c.Alts; i++ {
			nl = append(nl, ast.NewTerminalNode("alt", "ALT", i, 1, 2))
		}
		root = nl
	}
	return e, root, post
}

func checkC13(ci interface{}, st *Stats) (err error) {
	c := ci.(*C13Case)
	if c.Root == nil {
		return Discard{"no tree"}
	}
	defer func() {
		if r := recover(); r != nil {
			if _, ok := r.(budgetExceeded); ok {
				panic(r)
			}
			err = fmt.Errorf("panic: %v", r)
		}
	}()
	abortDeep := false

	// ---------- Walk ----------
	e, root, post := c.fresh()
	total := len(post)
	stopAt := -1
	if c.StopAt >= 0 {
		stopAt = c.StopAt % (total + 1) // total = "never reached" as well
		if stopAt == total {
			stopAt = -1
		}
	}
	var want []int
	for i, n := range post {
		want = append(want, n.id)
		if i == stopAt {
			break
		}
	}
	idOfBuilt := map[parsley.Node]int{}
	for id, n := range e.built {
		if _, isEmpty := n.(ast.EmptyNode); !isEmpty {
			idOfBuilt[n] = id
		}
	}
	var got []int
	listVisits := 0
	stopNode := -1
	if stopAt >= 0 {
		stopNode = post[stopAt].id
	}
	wi := 0
	stopped := parsley.Walk(root, func(n parsley.Node) bool {
		if _, isList := n.(ast.NodeList); isList {
			listVisits++
			return false
		}
		id := -100
		if _, isEmpty := n.(ast.EmptyNode); isEmpty {
			// empty nodes are values: identify by the expected slot
			if wi < len(want) && c.byID(want[wi]).Kind == 1 && e.built[want[wi]] == n {
				id = want[wi]
			}
		} else if x, ok := idOfBuilt[n]; ok {
			id = x
		}
		got = append(got, id)
		wi++
		return id == stopNode
	})
	if fmt.Sprint(got) != fmt.Sprint(want) {
		return fmt.Errorf("Walk visited nodes %v, post-order (stopping after node %d) is %v", got, stopNode, want)
	}
	if stopped != (stopAt >= 0) {
		return fmt.Errorf("Walk returned %v, the callback returned true: %v", stopped, stopAt >= 0)
	}
	wantList := 0
	if c.Alts > 0 && stopAt < 0 {
		wantList = 1 // the list itself is a node: visited once, after its first alternative
	}
	if listVisits != wantList {
		return fmt.Errorf("the root list was visited %d times, want %d", listVisits, wantList)
	}
	if stopAt >= 0 && stopAt < total-1 {
		abortDeep = true
	}

	// ---------- StaticCheck ----------
	runCheck := func(root parsley.Node, e *env13, model *TNode, label string, viaParse func() error) error {
		var post []*TNode
		postOrder(model, &post)
		var checkers []*TNode
		for _, n := range post {
			if n.Kind == 2 && (n.Caps == 1 || n.Caps == 3) || n.Kind == 4 {
				checkers = append(checkers, n)
			}
		}
		e.failCheck = -1
		failIdx := c.FailCheck
		if e.pass > 0 {
			// the second check of the same tree: a failure now if there was none, none if there was one
			if failIdx >= 0 {
				failIdx = -1
			} else {
				failIdx = c.FailEval + 1 // any index, independent of the first pass
			}
		}
		if failIdx >= 0 && len(checkers) > 0 {
			e.failCheck = checkers[failIdx%len(checkers)].id
			if e.failCheck != model.id {
				abortDeep = true
			}
		}
		final := map[int]interface{}{}
		for _, n := range post {
			if n.Kind == 0 {
				final[n.id] = fmt.Sprintf("ts%d", n.id)
			}
			if n.Kind == 3 { // transformed leaf
				final[n.id] = nil
			}
		}
		var wantLog []string
		wantErr := false
		aborted := map[int]bool{}
		for _, n := range post {
			if n.Kind != 2 && n.Kind != 4 {
				continue
			}
			if wantErr {
				aborted[n.id] = true
				continue
			}
			caps := n.Caps
			if n.Kind == 4 {
				caps = 1
			}
			switch caps {
			case 1, 3:
				var cs []string
				for _, k := range n.Kids {
					cs = append(cs, fmt.Sprint(final[k.id]))
				}
				wantLog = append(wantLog, fmt.Sprintf("check %d [%s]", n.id, strings.Join(cs, ",")))
				if n.id == e.failCheck {
					wantErr = true
					aborted[n.id] = true
					continue
				}
				final[n.id] = fmt.Sprintf("S%d%s", n.id, passMark(e.pass))
			case 4:
				final[n.id] = final[n.Kids[n.Sel].id]
			}
		}
		e.log = nil
		var cerr error
		before := map[int]string{}
		for _, n := range post {
			if b := e.built[n.id]; b != nil && (n.Kind == 2 || n.Kind == 4) {
				before[n.id] = fmt.Sprint(b.Schema())
			}
		}
		if viaParse != nil {
			cerr = viaParse()
		} else if pe := parsley.StaticCheck(nil, root); pe != nil {
			cerr = pe
		}
		// the check stops at the first error: the failing node and everything after it keep the schema
		// they had (nothing from a failed checker is recorded, nothing recorded earlier is erased)
		if viaParse == nil {
			for _, n := range post {
				if b := e.built[n.id]; b != nil && aborted[n.id] && (n.Kind == 2 || n.Kind == 4) {
					if now := fmt.Sprint(b.Schema()); now != before[n.id] {
						return fmt.Errorf("%s: node %d was not checked successfully in this pass, yet its schema changed from %s to %s", label, n.id, before[n.id], now)
					}
				}
			}
		}
		if (cerr != nil) != wantErr {
			return fmt.Errorf("%s: error = %v, a checker failure was injected: %v", label, cerr, wantErr)
		}
		if strings.Join(e.log, ";") != strings.Join(wantLog, ";") {
			return fmt.Errorf("%s: checker calls\n  %v\nthe bottom-up order with final child schemas is\n  %v", label, e.log, wantLog)
		}
		for _, n := range post {
			if (n.Kind == 2 || n.Kind == 4) && !aborted[n.id] {
				if b := e.built[n.id]; b != nil && fmt.Sprint(b.Schema()) != fmt.Sprint(final[n.id]) {
					return fmt.Errorf("%s: schema of node %d is %v, want %v", label, n.id, b.Schema(), final[n.id])
				}
			}
		}
		return nil
	}
	e, root, _ = c.fresh()
	if err := runCheck(root, e, c.Root, "StaticCheck", nil); err != nil {
		return err
	}
	if len(e.problems) > 0 {
		return fmt.Errorf("%s", e.problems[0])
	}
	// the same tree checked a second time (another user context, say): every checker runs again,
	// sees the schemas of this pass and its verdict counts
	e.pass = 1
	if err := runCheck(root, e, c.Root, "second StaticCheck of the same tree", nil); err != nil {
		return err
	}
	if len(e.problems) > 0 {
		return fmt.Errorf("%s", e.problems[0])
	}
	st.Class("tree statically checked twice")

	// ---------- Transform ----------
	e, root, _ = c.fresh()
	var transformers []*TNode
	var reach func(n *TNode)
	reach = func(n *TNode) {
		if n.Kind != 2 { // terminals, empties and user-defined blocks are not transformable
			return
		}
		if n.Caps == 2 || n.Caps == 3 || n.Caps == 6 {
			transformers = append(transformers, n)
			return
		}
		for _, k := range n.Kids {
			reach(k)
		}
	}
	reach(c.Root)
	if c.FailTrans >= 0 && len(transformers) > 0 {
		e.failTrans = transformers[c.FailTrans%len(transformers)].id
		if e.failTrans != c.Root.id {
			abortDeep = true
		}
	}
	var transWant []string
	var tw func(n *TNode) bool
	tw = func(n *TNode) bool {
		if n.Kind != 2 {
			return true
		}
		if n.Caps == 2 || n.Caps == 3 || n.Caps == 6 {
			transWant = append(transWant, fmt.Sprintf("trans %d", n.id))
			return n.id != e.failTrans
		}
		for _, k := range n.Kids {
			if !tw(k) {
				return false
			}
		}
		return true
	}
	okWant := tw(c.Root)
	// plainShape: the untransformed shape (what stays below a block)
	var plainShape func(n *TNode) string
	plainShape = func(n *TNode) string {
		switch n.Kind {
		case 0:
			return fmt.Sprintf("X=v%d", n.id)
		case 1:
			return "EMPTY"
		}
		parts := make([]string, len(n.Kids))
		for i, k := range n.Kids {
			parts[i] = plainShape(k)
		}
		if n.Kind == 4 {
			return "BLOCK[" + strings.Join(parts, " ") + "]"
		}
		return "NT[" + strings.Join(parts, " ") + "]"
	}
	var wantShape func(n *TNode) string
	wantShape = func(n *TNode) string {
		switch n.Kind {
		case 0:
			return fmt.Sprintf("X=v%d", n.id)
		case 1:
			return "EMPTY"
		case 4:
			parts := make([]string, len(n.Kids))
			for i, k := range n.Kids {
				parts[i] = plainShape(k)
			}
			return "BLOCK[" + strings.Join(parts, " ") + "]"
		}
		if n.Caps == 2 || n.Caps == 3 {
			return fmt.Sprintf("T=t%d", n.id)
		}
		if n.Caps == 6 {
			return plainShape(n) // kept by its own transformer, subtree and all
		}
		parts := make([]string, len(n.Kids))
		for i, k := range n.Kids {
			parts[i] = wantShape(k)
		}
		return "NT[" + strings.Join(parts, " ") + "]"
	}
	var gotShape func(n parsley.Node) string
	gotShape = func(n parsley.Node) string {
		switch v := n.(type) {
		case *ast.TerminalNode:
			return fmt.Sprintf("%s=%v", v.Token(), v.Value())
		case ast.EmptyNode:
			return "EMPTY"
		case *blockNode:
			parts := make([]string, len(v.kids))
			for i, k := range v.kids {
				parts[i] = gotShape(k)
			}
			return "BLOCK[" + strings.Join(parts, " ") + "]"
		case *plainBlock:
			return gotShape(v.b)
		case parsley.NonTerminalNode: // the library's node or a user type embedding it
			parts := make([]string, len(v.Children()))
			for i, k := range v.Children() {
				parts[i] = gotShape(k)
			}
			return "NT[" + strings.Join(parts, " ") + "]"
		}
		return fmt.Sprintf("?%T", n)
	}
	e.log = nil
	if c.Alts == 0 {
		res, terr := parsley.Transform(nil, root)
		if (terr == nil) != okWant || strings.Join(e.log, ";") != strings.Join(transWant, ";") {
			return fmt.Errorf("Transform: error=%v calls %v, want success=%v calls %v", terr, e.log, okWant, transWant)
		}
		if terr == nil && gotShape(res) != wantShape(c.Root) {
			return fmt.Errorf("Transform returned %s, want %s", gotShape(res), wantShape(c.Root))
		}
		if terr != nil && res != nil && !c.FailTransNode {
			return fmt.Errorf("Transform returned both a node and an error")
		}
	} else {
		res, terr := parsley.Transform(nil, root)
		if terr != nil || len(e.log) != 0 {
			return fmt.Errorf("Transform of an alternative list: error=%v calls=%v (a list is not transformable)", terr, e.log)
		}
		if _, ok := res.(ast.NodeList); !ok {
			return fmt.Errorf("Transform of an alternative list returned %T", res)
		}
	}
	if len(e.problems) > 0 {
		return fmt.Errorf("%s", e.problems[0])
	}

	// ---------- Evaluate ----------
	hasNilInterp := false
	for _, n := range post {
		if n.Kind == 2 && n.Caps == 7 {
			hasNilInterp = true
		}
	}
	if hasNilInterp {
		st.Class("a non-terminal without interpreter in the tree (not evaluated)")
	}
	if c.Alts == 0 && !hasNilInterp {
		e, root, _ = c.fresh()
		if c.FailEval >= 0 {
			e.failEval = c.FailEval % total
		}
		var evalWant []string
		var ev func(n *TNode) bool
		ev = func(n *TNode) bool {
			switch n.Kind {
			case 0:
				return true
			case 1, 4:
				return false // an empty node and a user-defined block have no value
			}
			if n.Caps == 4 {
				return ev(n.Kids[n.Sel])
			}
			if n.Caps == 5 { // the value of every second child, in order
				for i := 0; i < len(n.Kids); i += 2 {
					if !ev(n.Kids[i]) {
						return false
					}
				}
				return true
			}
			evalWant = append(evalWant, fmt.Sprintf("eval %d", n.id))
			if n.id == e.failEval {
				return false
			}
			for _, k := range n.Kids {
				if !ev(k) {
					return false
				}
			}
			return true
		}
		okEval := ev(c.Root)
		_, everr := parsley.EvaluateNode(nil, root)
		if (everr == nil) != okEval || strings.Join(e.log, ";") != strings.Join(evalWant, ";") {
			return fmt.Errorf("EvaluateNode: error=%v calls %v, want success=%v calls %v", everr, e.log, okEval, evalWant)
		}
		if len(e.problems) > 0 {
			return fmt.Errorf("%s", e.problems[0])
		}
	}

	// ---------- parsley.Parse with transformation and static checking enabled ----------
	if c.Alts == 0 {
		e, root, _ = c.fresh()
		if c.FailTrans >= 0 && len(transformers) > 0 {
			e.failTrans = transformers[c.FailTrans%len(transformers)].id
		}
		f := text.NewFile("f", []byte(strings.Repeat("x", total+64))) // every node position lies inside the file
		ctx := parsley.NewContext(parsley.NewFileSet(f), text.NewReader(f))
		ctx.EnableTransformation()
		ctx.EnableStaticCheck()
		prepared := parser.Func(func(ctx *parsley.Context, l data.IntMap, pos parsley.Pos) (parsley.Node, data.IntSet, parsley.Error) {
			if c.CtxErr {
				// what Seq/Any/Choice do on success: the furthest failed attempt stays in the context
				ctx.SetError(parsley.NewError(f.Pos(total+32), parsley.NotFoundError("one more element")))
			}
			return root, data.EmptyIntSet, nil
		})
		if !okWant {
			e.log = nil
			res, perr := parsley.Parse(ctx, prepared)
			if perr == nil || res != nil {
				return fmt.Errorf("Parse with a failing transformer returned node=%v error=%v", res, perr)
			}
			if !strings.HasPrefix(perr.Error(), "trans failed at f:1:") {
				return fmt.Errorf("Parse with a failing transformer: error text %q", perr)
			}
			if strings.Join(e.log, ";") != strings.Join(transWant, ";") {
				return fmt.Errorf("Parse: transformer calls %v, want %v", e.log, transWant)
			}
		} else {
			// the checkers then run on the transformed tree: transformed nodes are leaves without schema
			var tm func(n *TNode) *TNode
			tm = func(n *TNode) *TNode {
				if n.Kind == 2 && (n.Caps == 2 || n.Caps == 3) {
					return &TNode{Kind: 3, id: n.id}
				}
				if n.Kind == 4 || (n.Kind == 2 && n.Caps == 6) {
					return n // nothing below a block, or below a node its transformer kept, is transformed
				}
				cp := &TNode{Kind: n.Kind, Caps: n.Caps, Sel: n.Sel, id: n.id}
				for _, k := range n.Kids {
					cp.Kids = append(cp.Kids, tm(k))
				}
				return cp
			}
			model2 := tm(c.Root)
			var pres parsley.Node
			err := runCheck(nil, e, model2, "Parse(transform+static check)", func() error {
				e.log = nil
				var perr error
				pres, perr = parsley.Parse(ctx, prepared)
				// keep only the checker calls
				var cl []string
				for _, l := range e.log {
					if strings.HasPrefix(l, "check") {
						cl = append(cl, l)
					}
				}
				tl := []string{}
				for _, l := range e.log {
					if strings.HasPrefix(l, "trans") {
						tl = append(tl, l)
					}
				}
				if strings.Join(tl, ";") != strings.Join(transWant, ";") {
					return fmt.Errorf("transformer calls %v, want %v", tl, transWant)
				}
				e.log = cl
				if perr != nil && !strings.HasPrefix(perr.Error(), "check failed at f:1:") {
					return fmt.Errorf("unexpected error text %q", perr)
				}
				return perr
			})
			if err != nil {
				return err
			}
			if pres != nil && gotShape(pres) != wantShape(c.Root) {
				return fmt.Errorf("Parse returned %s, want %s", gotShape(pres), wantShape(c.Root))
			}
		}
	}

	// ---------- parsley.Evaluate: the value of the tree parsley.Parse returns ----------
	if c.Alts == 0 && !hasNilInterp {
		type evalOut struct {
			val      string
			failed   bool
			evalLog  string
			problems []string
		}
		run := func(viaEvaluate bool) (out evalOut, perr error) {
			e, root, _ := c.fresh()
			if c.FailTrans >= 0 && len(transformers) > 0 {
				e.failTrans = transformers[c.FailTrans%len(transformers)].id
			}
			if c.FailEval >= 0 {
				e.failEval = c.FailEval % total
			}
			f := text.NewFile("f", []byte(strings.Repeat("x", total+64)))
			ctx := parsley.NewContext(parsley.NewFileSet(f), text.NewReader(f))
			ctx.EnableTransformation()
			ctx.EnableStaticCheck()
			prepared := parser.Func(func(ctx *parsley.Context, l data.IntMap, pos parsley.Pos) (parsley.Node, data.IntSet, parsley.Error) {
				return root, data.EmptyIntSet, nil
			})
			defer func() {
				if r := recover(); r != nil {
					perr = fmt.Errorf("panic: %v", r)
				}
			}()
			var v interface{}
			var err error
			if viaEvaluate {
				v, err = parsley.Evaluate(ctx, prepared)
			} else {
				var res parsley.Node
				if res, err = parsley.Parse(ctx, prepared); err == nil {
					var everr parsley.Error
					if v, everr = parsley.EvaluateNode(ctx.UserContext(), res); everr != nil {
						err = everr
					}
				}
			}
			var el []string
			for _, l := range e.log {
				if strings.HasPrefix(l, "eval") {
					el = append(el, l)
				}
			}
			return evalOut{fmt.Sprint(v), err != nil, strings.Join(el, ";"), e.problems}, nil
		}
		two, perr := run(false)
		if perr != nil {
			return fmt.Errorf("Parse + EvaluateNode: %v", perr)
		}
		one, perr := run(true)
		if perr != nil {
			return fmt.Errorf("Evaluate: %v", perr)
		}
		if len(one.problems) > 0 {
			return fmt.Errorf("Evaluate: %s", one.problems[0])
		}
		if one.failed != two.failed || (!one.failed && one.val != two.val) || one.evalLog != two.evalLog {
			return fmt.Errorf("Evaluate (both passes enabled): failed=%v value %s interpreter calls [%s]; Parse followed by EvaluateNode on the returned tree: failed=%v value %s calls [%s]",
				one.failed, one.val, one.evalLog, two.failed, two.val, two.evalLog)
		}
		if !one.failed {
			st.Class("Evaluate compared with Parse + EvaluateNode (a value)")
		}
	}

	d := treeDepth(c.Root)
	st.Class(fmt.Sprintf("depth %d", min(d, 6)))
	if total > 5 {
		st.Class("more than 5 nodes")
	}
	if total > 15 {
		st.Class("more than 15 nodes")
	}
	if c.Alts > 0 {
		st.Class("alternative list at the root")
	}
	if abortDeep {
		st.Class("abort injected below the root")
	}
	if d >= 3 && abortDeep {
		st.NonTrivial()
	}
	return nil
}

func (c *C13Case) byID(id int) *TNode {
	var find func(n *TNode) *TNode
	find = func(n *TNode) *TNode {
		if n.id == id {
			return n
		}
		for _, k := range n.Kids {
			if r := find(k); r != nil {
				return r
			}
		}
		return nil
	}
	return find(c.Root)
}

func init() {
	register(&Property{ID: "C13", NewCase: func() interface{} { return &C13Case{} }, Gen: genC13, Check: checkC13})
}

func TestC13(t *testing.T) { RunProperty(t, "C13") }
