package harness

import (
	"fmt"
	"strings"
	"testing"

	"github.com/opsidian/parsley/combinator"
	"github.com/opsidian/parsley/data"
	"github.com/opsidian/parsley/parser"
	"github.com/opsidian/parsley/parsley"
	"github.com/opsidian/parsley/text"
	"github.com/opsidian/parsley/text/terminal"
	"pgregory.net/rapid"
)

// C17Case: an unambiguous grammar family with a variant, and a size; the input of that size
// and the doubled input are parsed and the call counts compared.
type C17Case struct {
	Family  string `json:"family"`
	Variant int    `json:"variant"` // bit0: alternatives permuted, bit1: extra Memoize wrappers, bit2: Choice instead of Any where the first token decides
	N       int    `json:"n"`
	Shape   int    `json:"shape"` // input shape within the family
}

func (c *C17Case) Describe() string {
	return fmt.Sprintf("family=%s variant=%d n=%d shape=%d input(n)=%q", c.Family, c.Variant, c.N, c.Shape, truncate(c17Input(c.Family, c.N, c.Shape), 60))
}

func truncate(s string, n int) string {
	if len(s) > n {
		return s[:n] + "..."
	}
	return s
}

var c17Families = []string{"lr", "lr2", "expr", "expr4", "mutual", "mutual3", "hidden", "brackets", "seplist", "rightrec", "exprparen", "tower4", "tower5", "tower6", "hiddenmany", "hiddensepby", "hiddenopts", "hidden2", "hiddenempties", "calls", "kwexpr", "ltexpr", "silentbrackets", "nullablebrackets"}

var towerOps = "%^&|+*"

func genC17(t *rapid.T) interface{} {
	maxN := 100
	if thorough() {
		maxN = 200
	}
	c := &C17Case{
		Family:  rapid.SampledFrom(c17Families).Draw(t, "family"),
		Variant: rapid.IntRange(0, 7).Draw(t, "variant"),
		N:       rapid.IntRange(8, maxN).Draw(t, "n"),
		Shape:   rapid.SampledFrom([]int{0, 1, 2, 3, 0, 1, 2, 3, 4, 5, 6, 7}).Draw(t, "shape"),
	}
	if strings.HasPrefix(c.Family, "tower") && c.N > maxN/2 {
		c.N = maxN / 2
	}
	if c.Family == "hidden" && c.Shape%4%2 == 1 && c.N > maxN*2/5 {
		c.N = maxN * 2 / 5 // cubic on this input shape: keep the doubled parse affordable
	}
	return c
}

// c17Own counts, independently of the library's own counter, every request made to a rule of the
// family (cache hits included) and every evaluation of a rule body.
var c17Own int

func c17Parser(family string, variant int, limit *int) parsley.Parser {
	perm := variant&1 != 0
	extra := variant&2 != 0
	choice := variant&4 != 0
	guard := func(p parsley.Parser) parsley.Parser {
		return parser.Func(func(ctx *parsley.Context, l data.IntMap, pos parsley.Pos) (parsley.Node, data.IntSet, parsley.Error) {
			c17Own++
			if *limit > 0 && (ctx.CallCount() > *limit || c17Own > *limit) {
				panic(callLimit{ctx.CallCount()})
			}
			return p.Parse(ctx, l, pos)
		})
	}
	// Choice (first match) replaces Any only where the alternatives are told apart by their
	// first token; a left-recursive alternative under Choice has no least-fixpoint meaning.
	first := func(ps ...parsley.Parser) parsley.Parser {
		if choice {
			return combinator.Choice(ps...)
		}
		return combinator.Any(ps...)
	}
	alt := func(rec parsley.Parser, base parsley.Parser) parsley.Parser {
		if perm {
			return combinator.Any(base, rec)
		}
		return combinator.Any(rec, base)
	}
	memo := func(p parsley.Parser) parser.Func {
		if extra {
			return guard(combinator.Memoize(combinator.Memoize(guard(p)))).(parser.Func)
		}
		return guard(combinator.Memoize(guard(p))).(parser.Func)
	}
	wrap := func(p parsley.Parser) parsley.Parser {
		if extra {
			return combinator.Memoize(p)
		}
		return p
	}
	r := terminal.Rune
	switch family {
	case "lr": // P -> P b | a
		var p parser.Func
		p = memo(alt(combinator.SeqOf(&p, r('b')), r('a')))
		return &p
	case "expr", "exprparen": // expr/term/factor, one left-recursive alternative per level
		var expr, term, factor parser.Func
		factor = memo(first(terminal.Integer("i"), wrap(combinator.SeqOf(r('('), &expr, r(')')))))
		term = memo(alt(combinator.SeqOf(&term, first(r('*'), r('/')), &factor), &factor))
		expr = memo(alt(combinator.SeqOf(&expr, first(r('+'), r('-')), &term), &term))
		return &expr
	case "lr2": // P -> P b | P c | a   (two left-recursive alternatives on one level)
		var p parser.Func
		if perm {
			p = memo(combinator.Any(r('a'), combinator.SeqOf(&p, r('c')), combinator.SeqOf(&p, r('b'))))
		} else {
			p = memo(combinator.Any(combinator.SeqOf(&p, r('b')), combinator.SeqOf(&p, r('c')), r('a')))
		}
		return &p
	case "expr4": // expr -> expr + term | expr - term | term ; term -> term * factor | term / factor | factor
		var expr, term, factor parser.Func
		factor = memo(first(terminal.Integer("i"), wrap(combinator.SeqOf(r('('), &expr, r(')')))))
		if perm {
			term = memo(combinator.Any(&factor, combinator.SeqOf(&term, r('/'), &factor), combinator.SeqOf(&term, r('*'), &factor)))
			expr = memo(combinator.Any(&term, combinator.SeqOf(&expr, r('-'), &term), combinator.SeqOf(&expr, r('+'), &term)))
		} else {
			term = memo(combinator.Any(combinator.SeqOf(&term, r('*'), &factor), combinator.SeqOf(&term, r('/'), &factor), &factor))
			expr = memo(combinator.Any(combinator.SeqOf(&expr, r('+'), &term), combinator.SeqOf(&expr, r('-'), &term), &term))
		}
		return &expr
	case "tower4", "tower5", "tower6": // L_i -> L_i op_i L_{i+1} | L_{i+1} ; atom -> INTEGER | ( L_0 )
		levels := int(family[5] - '0')
		ps := make([]parser.Func, levels+1)
		ps[levels] = memo(first(terminal.Integer("i"), wrap(combinator.SeqOf(r('('), &ps[0], r(')')))))
		for i := levels - 1; i >= 0; i-- {
			ps[i] = memo(alt(combinator.SeqOf(&ps[i], r(rune(towerOps[i])), &ps[i+1]), &ps[i+1]))
		}
		return &ps[0]
	case "mutual3": // A -> B x | a ; B -> C y | b ; C -> A z | c
		var a, b, c3 parser.Func
		a = memo(alt(combinator.SeqOf(&b, r('x')), r('a')))
		b = memo(alt(combinator.SeqOf(&c3, r('y')), r('b')))
		c3 = memo(alt(combinator.SeqOf(&a, r('z')), r('c')))
		return &a
	case "mutual": // A -> B x | a ; B -> A y | b
		var a, b parser.Func
		a = memo(alt(combinator.SeqOf(&b, r('x')), r('a')))
		b = memo(alt(combinator.SeqOf(&a, r('y')), r('b')))
		return &a
	case "hidden": // H -> x? H b | a   (unambiguous: x only directly before a)
		var h parser.Func
		h = memo(alt(combinator.SeqOf(combinator.Optional(r('x')), &h, r('b')), r('a')))
		return &h
	case "hidden2", "hiddenempties": // H -> p1 p2 H b | a with two SEPARATE nullable elements in front
		var h parser.Func
		if family == "hidden2" {
			h = memo(alt(combinator.SeqOf(combinator.Optional(r('x')), combinator.Optional(r('y')), &h, r('b')), r('a')))
		} else {
			h = memo(alt(combinator.SeqOf(parser.Empty(), parser.Empty(), &h, r('b')), r('a')))
		}
		return &h
	case "ltexpr": // expr -> term + expr | term ; term -> ( expr ) | 1 ; every token left-trimmed (the nodes of a rule start after the whitespace it was asked in front of)
		lt := func(c rune) parsley.Parser { return text.LeftTrim(r(c), text.WsSpacesNl) }
		var expr parser.Func
		term := memo(first(combinator.SeqOf(lt('('), &expr, lt(')')), lt('1')))
		expr = memo(combinator.Any(combinator.SeqOf(term, lt('+'), &expr), term))
		return combinator.SeqOf(&expr, text.LeftTrim(parser.Empty(), text.WsSpacesNl))
	case "kwexpr": // expr -> term and expr | term or expr | term ; term -> ( expr ) | x ; the keyword parsers register their word in the context every time they run
		kw := func(w string) parsley.Parser {
			p := text.Trim(terminal.Word(w, w, w))
			return parser.Func(func(ctx *parsley.Context, l data.IntMap, pos parsley.Pos) (parsley.Node, data.IntSet, parsley.Error) {
				ctx.RegisterKeywords(w)
				return p.Parse(ctx, l, pos)
			})
		}
		var expr parser.Func
		term := memo(first(combinator.SeqOf(text.Trim(r('(')), &expr, text.Trim(r(')'))), text.Trim(r('x'))))
		expr = memo(combinator.Any(combinator.SeqOf(term, kw("and"), &expr), combinator.SeqOf(term, kw("or"), &expr), term))
		return &expr
	case "calls": // prog -> (call ';')* ; call -> f ( expr? ) ; expr -> term (+ expr)? written with SeqFirstOrAll
		var expr parser.Func
		term := first(r('x'), r('y'))
		expr = memo(combinator.SeqFirstOrAll(term, r('+'), &expr))
		call := wrap(combinator.SeqOf(r('f'), r('('), combinator.Optional(&expr), r(')')))
		return combinator.Many(combinator.SeqOf(call, r(';')))
	case "hiddenmany", "hiddensepby", "hiddenopts": // H -> prefix H b | a with a composite nullable prefix
		var h parser.Func
		var prefix parsley.Parser
		switch family {
		case "hiddenmany":
			prefix = combinator.Many(r('x'))
		case "hiddensepby":
			prefix = combinator.SepBy(r('x'), r(','))
		default:
			prefix = combinator.SeqOf(combinator.Optional(r('x')), combinator.Optional(r('y')))
		}
		h = memo(alt(combinator.SeqOf(prefix, &h, r('b')), r('a')))
		return &h
	case "silentbrackets": // S -> T | U ; T -> ( T ) | ( T ] | b (fails silently: SuppressError) ; U -> ( U ) | a
		// every level asks for T on the next level twice: the silent failure of T (neither a result nor
		// an error) has to be remembered like any other answer
		var t, u parser.Func
		t = memo(combinator.SuppressError(combinator.Any(wrap(combinator.SeqOf(r('('), &t, r(')'))), wrap(combinator.SeqOf(r('('), &t, r(']'))), r('b'))))
		u = memo(first(wrap(combinator.SeqOf(r('('), &u, r(')'))), r('a')))
		return alt(&t, &u)
	case "nullablebrackets": // ITEMS -> ITEM* (memoized) ; ITEM -> ( ITEMS ) | ( ITEMS ] | x (not memoized)
		// where a closer is missing ITEMS matches nothing, and both alternatives of ITEM ask for it: a
		// zero-width answer has to come from the cache like any other
		var items, item parser.Func
		items = memo(combinator.Many(&item))
		item = combinator.Any(wrap(combinator.SeqOf(r('('), &items, r(')'))), wrap(combinator.SeqOf(r('('), &items, r(']'))), r('x'))
		return &items
	case "brackets": // N -> ( N ) | [ N ] | a
		var n parser.Func
		n = memo(first(wrap(combinator.SeqOf(r('('), &n, r(')'))), wrap(combinator.SeqOf(r('['), &n, r(']'))), r('a')))
		return &n
	case "seplist": // L -> item (, item)*   with item -> INTEGER | ( L )
		var l, item parser.Func
		item = memo(first(terminal.Integer("i"), wrap(combinator.SeqOf(r('('), &l, r(')')))))
		l = memo(combinator.SepBy1(&item, r(',')))
		return &l
	case "rightrec": // R -> a R | a
		var p parser.Func
		if choice {
			p = memo(combinator.Choice(combinator.SeqOf(r('a'), &p), r('a')))
		} else if perm {
			p = memo(combinator.Any(r('a'), combinator.SeqOf(r('a'), &p)))
		} else {
			p = memo(combinator.Any(combinator.SeqOf(r('a'), &p), r('a')))
		}
		return &p
	}
	panic("unknown family " + family)
}

// c17Input builds an input of roughly n bytes for the family.
func c17Input(family string, n int, shape int) string {
	// shapes 4..7 are ill-formed variants of shapes 0..3: the work bound holds for every input,
	// and a failing search visits failing sub-parses that a successful one never meets
	if shape >= 4 {
		s := c17ValidInput(family, n, shape-4)
		switch shape {
		case 4: // truncated
			return s[:len(s)-1-len(s)/8]
		case 5: // junk in the middle
			return s[:len(s)/2] + "?" + s[len(s)/2:]
		case 6: // junk at the end
			return s + "?"
		default: // first half only, doubled closers missing
			return s[:len(s)*3/4]
		}
	}
	return c17ValidInput(family, n, shape)
}

func c17ValidInput(family string, n int, shape int) string {
	switch family {
	case "lr":
		return "a" + strings.Repeat("b", n-1)
	case "lr2":
		var sb strings.Builder
		sb.WriteString("a")
		for i := 0; sb.Len() < n; i++ {
			sb.WriteByte("bc"[(i/(1+shape%3))%2])
		}
		return sb.String()
	case "mutual3":
		return "a" + strings.Repeat("zyx", n/3)
	case "tower4", "tower5", "tower6":
		levels := int(family[5] - '0')
		switch shape % 4 {
		case 0: // flat, lowest-precedence operator
			return "1" + strings.Repeat(string(towerOps[0])+"1", n/2)
		case 1: // nested parentheses only
			return strings.Repeat("(", n/2) + "1" + strings.Repeat(")", n/2)
		case 2: // flat, all operators in turn
			var sb strings.Builder
			sb.WriteString("1")
			for i := 0; sb.Len() < n; i++ {
				sb.WriteByte(towerOps[i%levels])
				sb.WriteString("2")
			}
			return sb.String()
		default: // nested groups joined by operators
			s := "1"
			for i := 0; len(s) < n; i++ {
				s = "(" + s + string(towerOps[i%levels]) + "2)"
			}
			return s
		}
	case "expr", "expr4":
		ops := [][]string{{"+", "*"}, {"-", "/"}, {"+", "+"}, {"*", "*"}}[shape%4]
		var sb strings.Builder
		sb.WriteString("1")
		for i := 0; sb.Len() < n; i++ {
			sb.WriteString(ops[i%2])
			sb.WriteString(fmt.Sprint(2 + i%7))
		}
		return sb.String()
	case "exprparen":
		// nested: ((1+2)*3) ... depth grows with n
		k := n / 6
		if shape%2 == 0 {
			s := "1"
			for i := 0; i < k; i++ {
				s = "(" + s + "+2)*3"
			}
			return s
		}
		s := "1"
		for i := 0; i < k; i++ {
			s = "2*(3+" + s + ")"
		}
		return s
	case "mutual":
		return "a" + strings.Repeat("yx", n/2)
	case "hidden":
		if shape%2 == 0 {
			return "a" + strings.Repeat("b", n-1)
		}
		return "xa" + strings.Repeat("b", n-2)
	case "hiddenmany", "hiddensepby", "hiddenopts", "hidden2", "hiddenempties":
		return "a" + strings.Repeat("b", n-1) // the prefix matches nothing
	case "ltexpr":
		sp := []string{" ", "", "  ", "\n"}[shape%4]
		s := sp + "1"
		for i := 0; len(s) < n; i++ {
			if (i+shape)%2 == 0 {
				s = sp + "(" + s + sp + "+" + sp + "1" + sp + ")"
			} else {
				s = sp + "(" + sp + "1" + sp + "+" + s + sp + ")"
			}
		}
		return s
	case "kwexpr":
		s := "x"
		for i := 0; len(s) < n; i++ {
			op := []string{" and x", " or x", " and (x or x)"}[(i+shape)%3]
			if shape%2 == 0 {
				s = "(" + s + op + ")"
			} else {
				s = "(x" + []string{" and ", " or "}[(i+shape)%2] + s + ")" // nesting on the right: (x and (x or ( ... )))
			}
		}
		return s
	case "calls":
		var sb strings.Builder
		for i := 0; sb.Len() < n; i++ {
			switch (i + shape) % 3 {
			case 0:
				sb.WriteString("f();")
			case 1:
				sb.WriteString("f(x);")
			default:
				sb.WriteString("f(x+y+x);")
			}
			if shape%4 == 0 {
				sb.Reset()
				sb.WriteString(strings.Repeat("f();", i+1)) // only calls without an argument
			}
		}
		return sb.String()
	case "brackets":
		k := n / 2
		o, c := "(", ")"
		if shape%2 == 1 {
			o, c = "[", "]"
		}
		var sb strings.Builder
		for i := 0; i < k; i++ {
			if shape >= 2 && i%2 == 1 {
				sb.WriteString("[")
			} else {
				sb.WriteString(o)
			}
		}
		sb.WriteString("a")
		for i := k - 1; i >= 0; i-- {
			if shape >= 2 && i%2 == 1 {
				sb.WriteString("]")
			} else {
				sb.WriteString(c)
			}
		}
		return sb.String()
	case "nullablebrackets":
		k := n / 2
		switch shape {
		case 0:
			return strings.Repeat("(", k) + "x" + strings.Repeat(")", k)
		case 1:
			return strings.Repeat("(", k) + strings.Repeat("]", k)
		case 2:
			return strings.Repeat("(x", k/2) + strings.Repeat(")", k/2)
		}
		return strings.Repeat("(", k) + "xx" + strings.Repeat(")]", k/2) + strings.Repeat(")", k%2)
	case "silentbrackets":
		k := n / 2
		switch shape {
		case 0:
			return strings.Repeat("(", k) + "a" + strings.Repeat(")", k)
		case 1:
			return strings.Repeat("(", k) + "b" + strings.Repeat(")", k)
		case 2:
			return strings.Repeat("(", k) + "b" + strings.Repeat("]", k)
		}
		return strings.Repeat("(", k) + "b" + strings.Repeat(")]", k/2) + strings.Repeat("]", k%2)
	case "seplist":
		if shape%2 == 0 {
			return "1" + strings.Repeat(",2", n/2)
		}
		k := n / 8
		s := "1,2"
		for i := 0; i < k; i++ {
			s = "3,(" + s + "),4"
		}
		return s
	case "rightrec":
		return strings.Repeat("a", n)
	}
	panic("unknown family")
}

func c17Calls(p parsley.Parser, in string, limit *int, lim int) (calls int, perr error, aborted bool) {
	*limit = lim
	c17Own = 0
	defer func() {
		*limit = 0
		if r := recover(); r != nil {
			if cl, ok := r.(callLimit); ok {
				calls, aborted = cl.n, true
				return
			}
			panic(r)
		}
	}()
	f := newFileOwned("f", []byte(in))
	ctx := parsley.NewContext(parsley.NewFileSet(f), text.NewReader(f))
	_, err := parsley.Parse(ctx, combinator.Sentence(p))
	return ctx.CallCount(), err, false
}

func checkC17(ci interface{}, st *Stats) error {
	c := ci.(*C17Case)
	known := false
	for _, f := range c17Families {
		known = known || f == c.Family
	}
	if !known || c.N < 8 || c.N > 400 {
		return Discard{"outside the family table"}
	}
	limit := 0
	p := c17Parser(c.Family, c.Variant, &limit)
	// A chain of sizes 8, 16, 32, ... n, 2n: every step is guarded by 16x the previous count, so an
	// exponential regression is reported by a count after little work, never by a timeout.
	sizes := []int{}
	for s := 8; s < c.N; s *= 2 {
		sizes = append(sizes, s)
	}
	sizes = append(sizes, c.N, 2*c.N)
	prevCalls, prevLen, prevOwn := 0, 0, 0
	var c1, c2, own1 int
	var in1 string
	for i, sz := range sizes {
		in := c17Input(c.Family, sz, c.Shape)
		lim := 0
		if i > 0 {
			lim = 16 * prevCalls
			if r := float64(len(in)) / float64(prevLen) / 2; r > 1 {
				// the builders round: allow the degree-4 bound for the real length ratio
				lim = int(float64(lim) * r * r * r * r)
			}
		}
		calls, perr, aborted := c17Calls(p, in, &limit, lim)
		if aborted {
			return fmt.Errorf("calls(%d bytes) = %d, but the parse of %d bytes was stopped after %d calls: more than 16x for (at most) a doubling of the input", prevLen, prevCalls, len(in), calls)
		}
		if perr != nil && c.Shape < 4 {
			return fmt.Errorf("input of size %d (%q) is rejected: %v", sz, truncate(in, 80), perr)
		}
		if perr != nil && !strings.HasPrefix(perr.Error(), "failed to parse the input: ") {
			return fmt.Errorf("input of size %d (%q): unexpected kind of error %v", sz, truncate(in, 80), perr)
		}
		// the harness's own count of rule requests and rule evaluations obeys the same bound (the
		// library's counter is what the property names; this one does not depend on it)
		if i > 0 && prevOwn >= 20 {
			ol := 16 * float64(prevOwn)
			if r := float64(len(in)) / float64(prevLen) / 2; r > 1 {
				ol *= r * r * r * r
			}
			if float64(c17Own) > ol {
				return fmt.Errorf("rule requests and evaluations counted by the harness: %d for %d bytes, %d for %d bytes: more than 16x for (at most) a doubling of the input (the library's own counter says %d and %d)", prevOwn, prevLen, c17Own, len(in), prevCalls, calls)
			}
		}
		if sz == c.N {
			c1, in1, own1 = calls, in, c17Own
		}
		if sz == 2*c.N {
			c2 = calls
		}
		prevCalls, prevLen, prevOwn = calls, len(in), c17Own
	}
	c1b, _, _ := c17Calls(p, in1, &limit, 0)
	if c1 != c1b || c17Own != own1 {
		return fmt.Errorf("the call count for the same grammar and input differs between runs: %d, %d (requests and evaluations counted by the harness: %d, %d)", c1, c1b, own1, c17Own)
	}
	// a freshly constructed grammar must give the same count as well
	limit2 := 0
	if c1c, _, _ := c17Calls(c17Parser(c.Family, c.Variant, &limit2), in1, &limit2, 0); c1c != c1 {
		return fmt.Errorf("the call count differs for a second construction of the same grammar: %d, %d", c1, c1c)
	}
	st.Class("family " + c.Family)
	ratio := float64(c2) / float64(c1)
	switch {
	case ratio < 2.5:
		st.Class("ratio < 2.5 (linear)")
	case ratio < 4.5:
		st.Class("ratio 2.5-4.5 (quadratic)")
	case ratio < 9:
		st.Class("ratio 4.5-9 (cubic)")
	default:
		st.Class("ratio 9-16")
	}
	if c.N >= 24 && c.Family != "brackets" && c.Family != "silentbrackets" && c.Family != "nullablebrackets" && c.Family != "seplist" && c.Family != "rightrec" {
		st.NonTrivial()
	}
	if c.Shape >= 4 {
		st.Class("ill-formed input shape")
	}
	return nil
}

func init() {
	register(&Property{ID: "C17", NewCase: func() interface{} { return &C17Case{} }, Gen: genC17, Check: checkC17})
}

func TestC17(t *testing.T) { RunProperty(t, "C17") }
