package harness

import (
	"fmt"
	"sort"
	"strings"
	"testing"

	"github.com/opsidian/parsley/data"
	"pgregory.net/rapid"
)

// SetOp is one operation of a C15 history. I and J select earlier values (modulo the pool).
type SetOp struct {
	Op   string      `json:"op"`
	I    int         `json:"i,omitempty"`
	J    int         `json:"j,omitempty"`
	V    int         `json:"v,omitempty"`
	Vals []int       `json:"vals,omitempty"`
	Map  map[int]int `json:"map,omitempty"`
}

type C15Case struct {
	Ops []SetOp `json:"ops"`
}

func (c *C15Case) Describe() string {
	var parts []string
	for _, o := range c.Ops {
		switch o.Op {
		case "newset":
			parts = append(parts, fmt.Sprintf("NewIntSet(%v)", o.Vals))
		case "insert":
			parts = append(parts, fmt.Sprintf("set[%d].Insert(%d)", o.I, o.V))
		case "union":
			parts = append(parts, fmt.Sprintf("set[%d].Union(set[%d])", o.I, o.J))
		case "newmap":
			parts = append(parts, fmt.Sprintf("NewIntMap(%v)", o.Map))
		case "inc":
			parts = append(parts, fmt.Sprintf("map[%d].Inc(%d)", o.I, o.V))
		case "filter":
			parts = append(parts, fmt.Sprintf("map[%d].Filter(set[%d])", o.I, o.J))
		}
	}
	return strings.Join(parts, "; ")
}

func genC15(t *rapid.T) interface{} {
	val := rapid.IntRange(-2, 8)
	n := rapid.IntRange(1, 14).Draw(t, "nops")
	if thorough() {
		n = rapid.IntRange(1, 30).Draw(t, "nops2")
	}
	c := &C15Case{}
	// The generator keeps its own model of the pool (every operation adds exactly one value), so
	// indices are exact and it can aim at the shapes where shared backing stores show: sets built
	// with spare capacity (NewIntSet with duplicate arguments), sibling results of one parent, and
	// unions / inserts that only append (argument entirely above the receiver).
	sets := [][]int{{}, {}}
	nm := 2
	lastSet, lastMap := 1, 1
	pick := func(n, last int, label string) int {
		switch rapid.IntRange(0, 3).Draw(t, label+"how") {
		case 0:
			return last
		case 1:
			return n - 1 - rapid.IntRange(0, min(3, n-1)).Draw(t, label+"recent")
		default:
			return rapid.IntRange(0, n-1).Draw(t, label)
		}
	}
	norm := func(vs []int) []int {
		m := map[int]bool{}
		for _, v := range vs {
			m[v] = true
		}
		return modelSetList(m)
	}
	for i := 0; i < n; i++ {
		op := SetOp{Op: rapid.SampledFrom([]string{"newset", "newset", "insert", "insert", "insert", "union", "union", "union", "newmap", "inc", "inc", "filter"}).Draw(t, "op")}
		op.V = val.Draw(t, "v")
		switch op.Op {
		case "newset":
			switch rapid.IntRange(0, 7).Draw(t, "setkind") {
			case 7: // a very long set (block-wise merging, strides of 8, 16, 32)
				op.Vals = rapid.SliceOfN(rapid.IntRange(-2, 70), 20, 50).Draw(t, "hugevals")
			case 6: // part of an earlier set: a suffix, a prefix, every other element, one element
				// (ties at every offset of a merge with the set it was taken from)
				src := sets[pick(len(sets), lastSet, "partof")]
				if len(src) == 0 {
					op.Vals = []int{op.V}
					break
				}
				at := rapid.IntRange(0, len(src)-1).Draw(t, "partat")
				switch rapid.IntRange(0, 3).Draw(t, "parthow") {
				case 0:
					op.Vals = append(op.Vals, src[at:]...)
				case 1:
					op.Vals = append(op.Vals, src[:at+1]...)
				case 2:
					for j := at % 2; j < len(src); j += 2 {
						op.Vals = append(op.Vals, src[j])
					}
				default:
					op.Vals = []int{src[at]}
					if rapid.Bool().Draw(t, "partplus") {
						op.Vals = append(op.Vals, src[len(src)-1]+1+rapid.IntRange(0, 3).Draw(t, "partabove"))
					}
				}
			case 5: // values at the edges of machine words and of small bit masks
				op.Vals = rapid.SliceOfN(rapid.SampledFrom([]int{0, 1, 7, 8, 31, 32, 33, 62, 63, 64, 65, 127, 128, 255, 256, 65535, 65536, 1<<31 - 1, 1 << 31, 1 << 32, 1<<62 + 3, 1<<63 - 1, -1, -64, -1 << 31, -1 << 63}), 1, 6).Draw(t, "edgevals")
			case 4: // a long set (size ratios of 4 and more against the small ones)
				op.Vals = rapid.SliceOfN(rapid.IntRange(-2, 20), 8, 16).Draw(t, "bigvals")
			case 0: // low values with duplicates: spare capacity
				k := rapid.IntRange(1, 2).Draw(t, "distinct")
				for j := 0; j < k; j++ {
					op.Vals = append(op.Vals, rapid.IntRange(-2, 2).Draw(t, "low"))
				}
				for j := rapid.IntRange(1, 3).Draw(t, "dups"); j > 0; j-- {
					op.Vals = append(op.Vals, op.Vals[rapid.IntRange(0, k-1).Draw(t, "dupof")])
				}
			case 1: // one or two high values
				op.Vals = rapid.SliceOfN(rapid.IntRange(4, 8), 1, 2).Draw(t, "high")
			default:
				op.Vals = rapid.SliceOfN(val, 0, 6).Draw(t, "vals")
			}
			sets = append(sets, norm(op.Vals))
		case "insert":
			op.I = pick(len(sets), lastSet, "i")
			lastSet = op.I
			if rapid.Bool().Draw(t, "above") && len(sets[op.I]) > 0 && sets[op.I][len(sets[op.I])-1] < 8 {
				op.V = rapid.IntRange(sets[op.I][len(sets[op.I])-1]+1, 8).Draw(t, "vabove")
			} else if si := sets[op.I]; len(si) >= 2 && si[len(si)-1]-si[0] >= 2 && rapid.IntRange(0, 1).Draw(t, "inside") == 0 {
				// strictly between the smallest and the largest element: siblings made this way have the
				// same length and the same ends and differ somewhere in the middle
				op.V = rapid.IntRange(si[0]+1, si[len(si)-1]-1).Draw(t, "vinside")
			}
			sets = append(sets, norm(append(append([]int{}, sets[op.I]...), op.V)))
		case "union":
			op.I = pick(len(sets), lastSet, "i")
			op.J = pick(len(sets), lastSet, "j")
			if rapid.Bool().Draw(t, "disjoint") && len(sets[op.I]) > 0 {
				var above []int
				for j, sj := range sets {
					if len(sj) > 0 && sj[0] > sets[op.I][len(sets[op.I])-1] {
						above = append(above, j)
					}
				}
				if len(above) > 0 {
					op.J = above[rapid.IntRange(0, len(above)-1).Draw(t, "jabove")]
				}
			}
			if rapid.IntRange(0, 1).Draw(t, "lookalike") == 0 && len(sets[op.I]) > 0 {
				// a different set of the same length with the same smallest and largest element
				si := sets[op.I]
				var like []int
				for j, sj := range sets {
					if len(sj) == len(si) && sj[0] == si[0] && sj[len(sj)-1] == si[len(si)-1] && fmt.Sprint(sj) != fmt.Sprint(si) {
						like = append(like, j)
					}
				}
				if len(like) > 0 {
					op.J = like[rapid.IntRange(0, len(like)-1).Draw(t, "jlike")]
				}
			}
			lastSet = op.I
			sets = append(sets, norm(append(append([]int{}, sets[op.I]...), sets[op.J]...)))
		case "newmap":
			// (any int is a value: counters below zero and at zero are entries like all others)
			op.Map = rapid.MapOfN(val, rapid.SampledFrom([]int{0, 1, 2, 3, 0, 1, 2, 3, -1, -1, -2, -3}), 0, 4).Draw(t, "map")
			if rapid.IntRange(0, 4).Draw(t, "edgekeys") == 0 {
				op.Map[rapid.SampledFrom([]int{63, 64, 65, 128, 1 << 31, 1<<63 - 1, -1 << 63}).Draw(t, "edgekey")] = 1 + rapid.IntRange(0, 2).Draw(t, "edgeval")
			}
			nm++
		case "inc":
			op.I = pick(nm, lastMap, "i")
			lastMap = op.I
			nm++
		case "filter":
			op.I = pick(nm, lastMap, "i")
			op.J = pick(len(sets), lastSet, "j")
			lastMap = op.I
			nm++
		}
		c.Ops = append(c.Ops, op)
	}
	return c
}

func setElems(s data.IntSet) []int {
	l := []int{}
	s.Each(func(v int) { l = append(l, v) })
	return l
}

func modelSetList(m map[int]bool) []int {
	l := []int{}
	for k := range m {
		l = append(l, k)
	}
	sort.Ints(l)
	return l
}

func checkC15(ci interface{}, st *Stats) error {
	c := ci.(*C15Case)
	sets := []data.IntSet{data.EmptyIntSet, data.NewIntSet()}
	msets := []map[int]bool{{}, {}}
	maps := []data.IntMap{data.EmptyIntMap, data.NewIntMap(nil)}
	mmaps := []map[int]int{{}, {}}
	spare := map[int]int{}      // spare capacity a set is known to have (NewIntSet allocates for every argument)
	usedSpare := map[int]bool{} // a union could already have appended into that spare capacity
	setKids := map[int]int{}    // how many descendants a pooled set has
	mapKids := map[int]int{}
	sharedOp := false
	invariant := func(step int, what string) error {
		for i, s := range sets {
			got, want := setElems(s), modelSetList(msets[i])
			if fmt.Sprint(got) != fmt.Sprint(want) || s.Len() != len(want) {
				return fmt.Errorf("after step %d (%s): set #%d reads %v (Len %d), the model says %v", step, what, i, got, s.Len(), want)
			}
			for k := 1; k < len(got); k++ {
				if got[k-1] >= got[k] {
					return fmt.Errorf("after step %d (%s): set #%d iterates %v: not ascending without duplicates", step, what, i, got)
				}
			}
		}
		for i, m := range maps {
			keys := m.Keys()
			sort.Ints(keys)
			wk := []int{}
			for k := range mmaps[i] {
				wk = append(wk, k)
			}
			sort.Ints(wk)
			if fmt.Sprint(keys) != fmt.Sprint(wk) {
				return fmt.Errorf("after step %d (%s): map #%d has keys %v, the model says %v", step, what, i, keys, wk)
			}
			for k := range mmaps[i] {
				if m.Get(k) != mmaps[i][k] {
					return fmt.Errorf("after step %d (%s): map #%d[%d] = %d, the model says %d", step, what, i, k, m.Get(k), mmaps[i][k])
				}
			}
			for k := -3; k <= 21; k++ {
				if m.Get(k) != mmaps[i][k] {
					return fmt.Errorf("after step %d (%s): map #%d[%d] = %d, the model says %d", step, what, i, k, m.Get(k), mmaps[i][k])
				}
			}
			n := 0
			var eachErr error
			other := maps[(i+1)%len(maps)]
			m.Each(func(k, v int) {
				n++
				// reading other values (and this one) while iterating must not disturb the iteration
				// (the iteration over another map comes last: nothing after it may put things right again)
				m.Each(func(int, int) {})
				sets[i%len(sets)].Each(func(int) {})
				_ = other.Keys()
				other.Each(func(int, int) {})
				if mv, ok := mmaps[i][k]; !ok || mv != v {
					eachErr = fmt.Errorf("after step %d (%s): map #%d Each visits %d=%d, the model says %d (present %v)", step, what, i, k, v, mv, ok)
				}
			})
			if eachErr != nil {
				return eachErr
			}
			if n != len(mmaps[i]) {
				return fmt.Errorf("after step %d (%s): map #%d Each visits %d entries, the model has %d", step, what, i, n, len(mmaps[i]))
			}
		}
		if data.EmptyIntSet.Len() != 0 || len(data.EmptyIntMap.Keys()) != 0 {
			return fmt.Errorf("after step %d (%s): the shared empty values are no longer empty", step, what)
		}
		return nil
	}
	for step, op := range c.Ops {
		i, j := op.I%len(sets), op.J%len(sets)
		mi := op.I % len(maps)
		what := op.Op
		switch op.Op {
		case "newset":
			// the values are handed over as a slice (with spare capacity) which the caller goes on using:
			// the set must not live in it
			arg := append(make([]int, 0, len(op.Vals)+2), op.Vals...)
			sets = append(sets, data.NewIntSet(arg...))
			for k := range arg {
				arg[k] = 70 + k
			}
			_ = append(arg, 99, 98)
			m := map[int]bool{}
			for _, v := range op.Vals {
				m[v] = true
			}
			spare[len(sets)-1] = len(op.Vals) - len(m)
			msets = append(msets, m)
		case "insert":
			if setKids[i] > 0 {
				sharedOp = true
			}
			setKids[i]++
			sets = append(sets, sets[i].Insert(op.V))
			m := map[int]bool{op.V: true}
			for k := range msets[i] {
				m[k] = true
			}
			msets = append(msets, m)
			what = fmt.Sprintf("set #%d.Insert(%d)", i, op.V)
		case "union":
			if setKids[i] > 0 || setKids[j] > 0 {
				sharedOp = true
			}
			setKids[i]++
			setKids[j]++
			if li, lj := modelSetList(msets[i]), modelSetList(msets[j]); len(li) > 0 && len(lj) > 0 && li[len(li)-1] < lj[0] {
				st.Class("union of a set with a set entirely above it")
				if spare[i] >= len(lj) {
					st.Class("... whose receiver has spare capacity for it (NewIntSet with duplicates)")
					if usedSpare[i] {
						st.Class("... for the second time on that receiver")
					}
					usedSpare[i] = true
				}
			}
			sets = append(sets, sets[i].Union(sets[j]))
			m := map[int]bool{}
			for k := range msets[i] {
				m[k] = true
			}
			for k := range msets[j] {
				m[k] = true
			}
			msets = append(msets, m)
			what = fmt.Sprintf("set #%d.Union(set #%d)", i, j)
		case "newmap":
			// the map handed to NewIntMap is shared with the IntMap by documentation: never touched again
			own := map[int]int{}
			cp := map[int]int{}
			for k, v := range op.Map {
				own[k], cp[k] = v, v
			}
			maps = append(maps, data.NewIntMap(own))
			mmaps = append(mmaps, cp)
		case "inc":
			if mapKids[mi] > 0 {
				sharedOp = true
			}
			mapKids[mi]++
			maps = append(maps, maps[mi].Inc(op.V))
			m := map[int]int{}
			for a, b := range mmaps[mi] {
				m[a] = b
			}
			m[op.V]++
			mmaps = append(mmaps, m)
			what = fmt.Sprintf("map #%d.Inc(%d)", mi, op.V)
		case "filter":
			if mapKids[mi] > 0 {
				sharedOp = true
			}
			mapKids[mi]++
			maps = append(maps, maps[mi].Filter(sets[j]))
			m := map[int]int{}
			for a, b := range mmaps[mi] {
				if msets[j][a] {
					m[a] = b
				}
			}
			mmaps = append(mmaps, m)
			what = fmt.Sprintf("map #%d.Filter(set #%d)", mi, j)
		default:
			return Discard{"unknown op"}
		}
		if err := invariant(step, what); err != nil {
			return err
		}
	}
	st.ClassN("operations", len(c.Ops))
	if sharedOp {
		st.NonTrivial()
		st.Class("operation on a value that already has a descendant")
	}
	return nil
}

func init() {
	register(&Property{ID: "C15", NewCase: func() interface{} { return &C15Case{} }, Gen: genC15, Check: checkC15})
}

func TestC15(t *testing.T) { RunProperty(t, "C15") }
