package harness

import (
	"fmt"
	"sort"
	"strings"
	"testing"

	"github.com/opsidian/parsley/data"
	"pgregory.net/rapid"
)

// SetOp is one operation of a C15 history. I and J select earlier values (modulo the pool).
type SetOp struct {
	Op   string      `json:"op"`
	I    int         `json:"i,omitempty"`
	J    int         `json:"j,omitempty"`
	V    int         `json:"v,omitempty"`
	Vals []int       `json:"vals,omitempty"`
	Map  map[int]int `json:"map,omitempty"`
}

type C15Case struct {
	Ops []SetOp `json:"ops"`
}

func (c *C15Case) Describe() string {
	var parts []string
	for _, o := range c.Ops {
		switch o.Op {
		case "newset":
			parts = append(parts, fmt.Sprintf("NewIntSet(%v)", o.Vals))
		case "insert":
			parts = append(parts, fmt.Sprintf("set[%d].Insert(%d)", o.I, o.V))
		case "union":
			parts = append(parts, fmt.Sprintf("set[%d].Union(set[%d])", o.I, o.J))
		case "newmap":
			parts = append(parts, fmt.Sprintf("NewIntMap(%v)", o.Map))
		case "inc":
			parts = append(parts, fmt.Sprintf("map[%d].Inc(%d)", o.I, o.V))
		case "filter":
			parts = append(parts, fmt.Sprintf("map[%d].Filter(set[%d])", o.I, o.J))
		}
	}
	return strings.Join(parts, "; ")
}

func genC15(t *rapid.T) interface{} {
	val := rapid.IntRange(-2, 8)
	n := rapid.IntRange(1, 14).Draw(t, "nops")
	if thorough() {
		n = rapid.IntRange(1, 30).Draw(t, "nops2")
	}
	c := &C15Case{}
	for i := 0; i < n; i++ {
		op := SetOp{Op: rapid.SampledFrom([]string{"newset", "insert", "insert", "insert", "union", "union", "newmap", "inc", "inc", "filter"}).Draw(t, "op")}
		op.I = rapid.IntRange(0, 40).Draw(t, "i")
		op.J = rapid.IntRange(0, 40).Draw(t, "j")
		op.V = val.Draw(t, "v")
		switch op.Op {
		case "newset":
			op.Vals = rapid.SliceOfN(val, 0, 6).Draw(t, "vals")
		case "newmap":
			op.Map = rapid.MapOfN(val, rapid.IntRange(0, 3), 0, 4).Draw(t, "map")
		}
		c.Ops = append(c.Ops, op)
	}
	return c
}

func setElems(s data.IntSet) []int {
	l := []int{}
	s.Each(func(v int) { l = append(l, v) })
	return l
}

func modelSetList(m map[int]bool) []int {
	l := []int{}
	for k := range m {
		l = append(l, k)
	}
	sort.Ints(l)
	return l
}

func checkC15(ci interface{}, st *Stats) error {
	c := ci.(*C15Case)
	sets := []data.IntSet{data.EmptyIntSet, data.NewIntSet()}
	msets := []map[int]bool{{}, {}}
	maps := []data.IntMap{data.EmptyIntMap, data.NewIntMap(nil)}
	mmaps := []map[int]int{{}, {}}
	setKids := map[int]int{} // how many descendants a pooled set has
	mapKids := map[int]int{}
	sharedOp := false
	invariant := func(step int, what string) error {
		for i, s := range sets {
			got, want := setElems(s), modelSetList(msets[i])
			if fmt.Sprint(got) != fmt.Sprint(want) || s.Len() != len(want) {
				return fmt.Errorf("after step %d (%s): set #%d reads %v (Len %d), the model says %v", step, what, i, got, s.Len(), want)
			}
			for k := 1; k < len(got); k++ {
				if got[k-1] >= got[k] {
					return fmt.Errorf("after step %d (%s): set #%d iterates %v: not ascending without duplicates", step, what, i, got)
				}
			}
		}
		for i, m := range maps {
			keys := m.Keys()
			sort.Ints(keys)
			wk := []int{}
			for k := range mmaps[i] {
				wk = append(wk, k)
			}
			sort.Ints(wk)
			if fmt.Sprint(keys) != fmt.Sprint(wk) {
				return fmt.Errorf("after step %d (%s): map #%d has keys %v, the model says %v", step, what, i, keys, wk)
			}
			for k := -3; k <= 9; k++ {
				if m.Get(k) != mmaps[i][k] {
					return fmt.Errorf("after step %d (%s): map #%d[%d] = %d, the model says %d", step, what, i, k, m.Get(k), mmaps[i][k])
				}
			}
			n := 0
			var eachErr error
			m.Each(func(k, v int) {
				n++
				if mv, ok := mmaps[i][k]; !ok || mv != v {
					eachErr = fmt.Errorf("after step %d (%s): map #%d Each visits %d=%d, the model says %d (present %v)", step, what, i, k, v, mv, ok)
				}
			})
			if eachErr != nil {
				return eachErr
			}
			if n != len(mmaps[i]) {
				return fmt.Errorf("after step %d (%s): map #%d Each visits %d entries, the model has %d", step, what, i, n, len(mmaps[i]))
			}
		}
		if data.EmptyIntSet.Len() != 0 || len(data.EmptyIntMap.Keys()) != 0 {
			return fmt.Errorf("after step %d (%s): the shared empty values are no longer empty", step, what)
		}
		return nil
	}
	for step, op := range c.Ops {
		i, j := op.I%len(sets), op.J%len(sets)
		mi := op.I % len(maps)
		what := op.Op
		switch op.Op {
		case "newset":
			sets = append(sets, data.NewIntSet(op.Vals...))
			m := map[int]bool{}
			for _, v := range op.Vals {
				m[v] = true
			}
			msets = append(msets, m)
		case "insert":
			if setKids[i] > 0 {
				sharedOp = true
			}
			setKids[i]++
			sets = append(sets, sets[i].Insert(op.V))
			m := map[int]bool{op.V: true}
			for k := range msets[i] {
				m[k] = true
			}
			msets = append(msets, m)
			what = fmt.Sprintf("set #%d.Insert(%d)", i, op.V)
		case "union":
			if setKids[i] > 0 || setKids[j] > 0 {
				sharedOp = true
			}
			setKids[i]++
			setKids[j]++
			sets = append(sets, sets[i].Union(sets[j]))
			m := map[int]bool{}
			for k := range msets[i] {
				m[k] = true
			}
			for k := range msets[j] {
				m[k] = true
			}
			msets = append(msets, m)
			what = fmt.Sprintf("set #%d.Union(set #%d)", i, j)
		case "newmap":
			// the map handed to NewIntMap is shared with the IntMap by documentation: never touched again
			own := map[int]int{}
			cp := map[int]int{}
			for k, v := range op.Map {
				own[k], cp[k] = v, v
			}
			maps = append(maps, data.NewIntMap(own))
			mmaps = append(mmaps, cp)
		case "inc":
			if mapKids[mi] > 0 {
				sharedOp = true
			}
			mapKids[mi]++
			maps = append(maps, maps[mi].Inc(op.V))
			m := map[int]int{}
			for a, b := range mmaps[mi] {
				m[a] = b
			}
			m[op.V]++
			mmaps = append(mmaps, m)
			what = fmt.Sprintf("map #%d.Inc(%d)", mi, op.V)
		case "filter":
			if mapKids[mi] > 0 {
				sharedOp = true
			}
			mapKids[mi]++
			maps = append(maps, maps[mi].Filter(sets[j]))
			m := map[int]int{}
			for a, b := range mmaps[mi] {
				if msets[j][a] {
					m[a] = b
				}
			}
			mmaps = append(mmaps, m)
			what = fmt.Sprintf("map #%d.Filter(set #%d)", mi, j)
		default:
			return Discard{"unknown op"}
		}
		if err := invariant(step, what); err != nil {
			return err
		}
	}
	st.ClassN("operations", len(c.Ops))
	if sharedOp {
		st.NonTrivial()
		st.Class("operation on a value that already has a descendant")
	}
	return nil
}

func init() {
	register(&Property{ID: "C15", NewCase: func() interface{} { return &C15Case{} }, Gen: genC15, Check: checkC15})
}

func TestC15(t *testing.T) { RunProperty(t, "C15") }
