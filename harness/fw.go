// Package harness holds the property checks for opsidian/parsley.
//
// fw.go is the small framework shared by all checks: a registry of properties, the
// per-run statistics that become the evidence file, failure recording (the failing case is
// written on every failing execution, so the last write is rapid's shrunk case), replay of
// saved cases without rapid, and the trace mode used by the driver to attribute fatal
// crashes (stack exhaustion cannot be recovered in Go).
package harness

import (
	"encoding/json"
	"fmt"
	"hash/fnv"
	"os"
	"path/filepath"
	"runtime/debug"
	"sort"
	"strconv"
	"strings"
	"testing"

	"pgregory.net/rapid"
)

// Discard is returned by a check when the case is outside the property's domain or the
// work budget was hit: the case is counted, never reported.
type Discard struct{ Why string }

func (d Discard) Error() string { return "discard: " + d.Why }

// budgetExceeded is the sentinel panic of the call/size budget probes.
type budgetExceeded struct{}

// Stats is what one shard measured.
type Stats struct {
	Property   string            `json:"property"`
	Cases      int               `json:"cases"`
	Discards   map[string]int    `json:"discards"`
	Classes    map[string]int    `json:"classes"`
	Known      map[string]int    `json:"known"`
	Nontrivial []uint64          `json:"nontrivial"`
	Samples    []json.RawMessage `json:"samples"`
	Notes      map[string]string `json:"notes,omitempty"`
	nt         map[uint64]struct{}
	curHash    uint64
	curJSON    []byte
	curDesc    string
	sampleCap  int
	ntSamples  int
}

func newStats(id string) *Stats {
	return &Stats{Property: id, Discards: map[string]int{}, Classes: map[string]int{}, Known: map[string]int{},
		nt: map[uint64]struct{}{}, sampleCap: 6, Notes: map[string]string{}}
}

// Class counts the current case in a class of the generator-health histogram.
func (s *Stats) Class(name string) { s.Classes[name]++ }

// ClassN adds n to a class counter.
func (s *Stats) ClassN(name string, n int) { s.Classes[name] += n }

// NonTrivial marks the current case as non-trivial by the property's stated rule.
func (s *Stats) NonTrivial() {
	if _, ok := s.nt[s.curHash]; !ok {
		s.nt[s.curHash] = struct{}{}
		if s.ntSamples < s.sampleCap && s.curJSON != nil {
			smp := s.curJSON
			if s.curDesc != "" {
				smp, _ = json.Marshal(s.curDesc)
			}
			s.Samples = append(s.Samples, json.RawMessage(smp))
			s.ntSamples++
		}
	}
}

// KnownFinding records that a listed known finding was observed (never a violation).
func (s *Stats) KnownFinding(sig string) { s.Known[sig]++ }

func (s *Stats) begin(c interface{}) {
	b, err := json.Marshal(c)
	if err != nil {
		panic(fmt.Sprintf("case is not serialisable: %v", err))
	}
	h := fnv.New64a()
	h.Write(b)
	s.curHash = h.Sum64()
	s.curJSON = b
	s.curDesc = ""
	if d, ok := c.(Describer); ok {
		s.curDesc = d.Describe()
	}
	s.Cases++
}

func (s *Stats) write(path string) {
	s.Nontrivial = s.Nontrivial[:0]
	for h := range s.nt {
		s.Nontrivial = append(s.Nontrivial, h)
	}
	sort.Slice(s.Nontrivial, func(i, j int) bool { return s.Nontrivial[i] < s.Nontrivial[j] })
	b, _ := json.Marshal(s)
	_ = os.WriteFile(path, b, 0o644)
}

// Describer gives a compact human-readable form of a case (evidence samples, failure messages).
type Describer interface{ Describe() string }

// Property describes one registered check.
type Property struct {
	ID      string
	NewCase func() interface{}                  // pointer to a zero case, for JSON decoding
	Gen     func(t *rapid.T) interface{}        // draws a case (pointer)
	Check   func(c interface{}, s *Stats) error // nil = holds; Discard = not counted; else violation
}

var registry = map[string]*Property{}

func register(p *Property) { registry[p.ID] = p }

// Tier returns "quick" or "thorough".
func Tier() string {
	if os.Getenv("VERIF_TIER") == "thorough" {
		return "thorough"
	}
	return "quick"
}

func thorough() bool { return Tier() == "thorough" }

func envInt(k string, d int) int {
	if v := os.Getenv(k); v != "" {
		if n, err := strconv.Atoi(v); err == nil {
			return n
		}
	}
	return d
}

type failRecord struct {
	Property string          `json:"property"`
	Message  string          `json:"message"`
	Describe string          `json:"describe,omitempty"`
	Case     json.RawMessage `json:"case"`
}

// safeCheck runs the check and converts panics into errors (budget sentinel = discard).
func safeCheck(p *Property, c interface{}, s *Stats) (err error) {
	defer func() {
		if r := recover(); r != nil {
			if _, ok := r.(budgetExceeded); ok {
				err = Discard{"budget"}
				return
			}
			err = fmt.Errorf("panic: %v\n%s", r, trimStack(debug.Stack()))
		}
	}()
	return p.Check(c, s)
}

func trimStack(b []byte) string {
	lines := strings.Split(string(b), "\n")
	if len(lines) > 40 {
		lines = lines[:40]
	}
	return strings.Join(lines, "\n")
}

// RunProperty is the body of every TestCNN: generated search with rapid.
func RunProperty(t *testing.T, id string) {
	p := registry[id]
	if p == nil {
		t.Fatalf("unknown property %s", id)
	}
	out := os.Getenv("VERIF_OUT")
	trace := os.Getenv("VERIF_TRACE")
	st := newStats(id)
	if out != "" {
		defer func() {
			if !t.Failed() {
				st.write(filepath.Join(out, "stats.json"))
			}
		}()
	}
	rapid.Check(t, func(rt *rapid.T) {
		c := p.Gen(rt)
		st.begin(c)
		if trace != "" {
			_ = os.WriteFile(trace, st.curJSON, 0o644)
		}
		err := safeCheck(p, c, st)
		if err == nil {
			return
		}
		if d, ok := err.(Discard); ok {
			st.Discards[d.Why]++
			return
		}
		if out != "" {
			b, _ := json.MarshalIndent(failRecord{Property: id, Message: err.Error(), Describe: st.curDesc, Case: st.curJSON}, "", " ")
			_ = os.WriteFile(filepath.Join(out, "fail.json"), b, 0o644)
		}
		rt.Fatalf("%s violated: %v\ncase: %s\n%s", id, err, st.curDesc, st.curJSON)
	})
}

// loadCase reads either a bare case or a failRecord / corpus entry {"case": ...}.
func loadCase(p *Property, path string) (interface{}, error) {
	b, err := os.ReadFile(path)
	if err != nil {
		return nil, err
	}
	var wrap struct {
		Case json.RawMessage `json:"case"`
	}
	if json.Unmarshal(b, &wrap) == nil && wrap.Case != nil {
		b = wrap.Case
	}
	c := p.NewCase()
	if err := json.Unmarshal(b, c); err != nil {
		return nil, err
	}
	return c, nil
}

// TestReplay runs saved cases through the same check functions, without rapid.
// VERIF_ID selects the property, VERIF_REPLAY is a file or a directory of *.json files.
func runReplay(t *testing.T) {
	id, path := os.Getenv("VERIF_ID"), os.Getenv("VERIF_REPLAY")
	if id == "" || path == "" {
		t.Skip("VERIF_ID / VERIF_REPLAY not set")
	}
	p := registry[id]
	if p == nil {
		t.Fatalf("unknown property %s", id)
	}
	var files []string
	if fi, err := os.Stat(path); err == nil && fi.IsDir() {
		files, _ = filepath.Glob(filepath.Join(path, "*.json"))
		sort.Strings(files)
	} else {
		files = []string{path}
	}
	st := newStats(id)
	out := os.Getenv("VERIF_OUT")
	bad := 0
	for _, f := range files {
		c, err := loadCase(p, f)
		if err != nil {
			t.Errorf("REPLAY-ERROR %s: %v", f, err)
			continue
		}
		st.begin(c)
		err = safeCheck(p, c, st)
		if err == nil {
			fmt.Printf("REPLAY-OK %s\n", f)
			continue
		}
		if d, ok := err.(Discard); ok {
			st.Discards[d.Why]++
			fmt.Printf("REPLAY-DISCARD %s (%s)\n", f, d.Why)
			continue
		}
		bad++
		fmt.Printf("REPLAY-VIOLATION %s\n%v\n", f, err)
	}
	if out != "" {
		st.write(filepath.Join(out, "stats.json"))
	}
	if bad > 0 {
		t.Fatalf("%d of %d replayed cases violate %s", bad, len(files), id)
	}
}

func init() {
	// make runaway recursion die quickly instead of eating a gigabyte of stack first
	debug.SetMaxStack(256 << 20)
}

// FuzzProperty drives a registered property with Go's coverage-guided fuzzer: the fuzzer's
// bytes are rapid's source of randomness (rapid.MakeFuzz), so coverage feedback steers the
// same generators and the same oracle. A failing case is written to VERIF_FUZZ_OUT as JSON,
// which is what ./check turns into the replay file.
func FuzzProperty(f *testing.F, id string) {
	p := registry[id]
	if p == nil {
		f.Fatalf("unknown property %s", id)
	}
	out := os.Getenv("VERIF_FUZZ_OUT")
	// seed corpus: a few fixed pseudo-random byte strings (enough entropy for whole cases)
	x := uint64(0x9E3779B97F4A7C15)
	for i := 0; i < 12; i++ {
		b := make([]byte, 768)
		for j := range b {
			x ^= x << 13
			x ^= x >> 7
			x ^= x << 17
			b[j] = byte(x >> 32)
		}
		f.Add(b)
	}
	f.Fuzz(rapid.MakeFuzz(func(rt *rapid.T) {
		c := p.Gen(rt)
		st := newStats(id)
		st.begin(c)
		err := safeCheck(p, c, st)
		if err == nil {
			return
		}
		if _, ok := err.(Discard); ok {
			return
		}
		if out != "" {
			b, _ := json.MarshalIndent(failRecord{Property: id, Message: err.Error(), Describe: st.curDesc, Case: st.curJSON}, "", " ")
			_ = os.WriteFile(filepath.Join(out, fmt.Sprintf("fuzzfail-%016x.json", st.curHash)), b, 0o644)
		}
		rt.Fatalf("%s violated: %v\ncase: %s\n%s", id, err, st.curDesc, st.curJSON)
	}))
}

// fuzzFail is used by the byte-level fuzz targets: it writes the failing input as a replayable
// case of the property (same JSON format as a rapid failure) and fails the fuzz execution.
func fuzzFail(t *testing.T, id string, c interface{}, err error) {
	st := newStats(id)
	st.begin(c)
	if out := os.Getenv("VERIF_FUZZ_OUT"); out != "" {
		b, _ := json.MarshalIndent(failRecord{Property: id, Message: err.Error(), Describe: st.curDesc, Case: st.curJSON}, "", " ")
		_ = os.WriteFile(filepath.Join(out, fmt.Sprintf("fuzzfail-%016x.json", st.curHash)), b, 0o644)
	}
	t.Fatalf("%s violated: %v\ncase: %s", id, err, st.curDesc)
}
