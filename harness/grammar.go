package harness

import (
	"encoding/json"
	"fmt"
	"strings"
)

// Kind is a combinator of the grammar model.
type Kind int

const (
	KTerm Kind = iota
	KEmpty
	KSeqOf
	KSeqTry
	KSeqFirstOrAll
	KAny
	KChoice
	KOpt
	KMany
	KMany1
	KSepBy
	KSepBy1
	KRef
	KLTrim
	KRTrim
	KSuppress // combinator.SuppressError: same results, the error is dropped
	KSingle   // combinator.Single: a one-child non-terminal is replaced by its child (only used where no reference semantics is needed)
)

var kindNames = []string{"Term", "Empty", "SeqOf", "SeqTry", "SeqFirstOrAll", "Any", "Choice", "Opt", "Many", "Many1", "SepBy", "SepBy1", "Ref", "LTrim", "RTrim", "SuppressError", "Single"}

func (k Kind) String() string { return kindNames[k] }

func (k Kind) MarshalJSON() ([]byte, error) { return json.Marshal(kindNames[k]) }

func (k *Kind) UnmarshalJSON(b []byte) error {
	var s string
	if err := json.Unmarshal(b, &s); err != nil {
		return err
	}
	for i, n := range kindNames {
		if n == s {
			*k = Kind(i)
			return nil
		}
	}
	return fmt.Errorf("unknown kind %q", s)
}

// Expr is one node of a grammar expression.
type Expr struct {
	K    Kind    `json:"k"`
	Ch   string  `json:"ch,omitempty"` // terminal byte (as a one-byte string)
	Kids []*Expr `json:"kids,omitempty"`
	NT   int     `json:"nt,omitempty"`   // referenced rule (Ref)
	Mode int     `json:"mode,omitempty"` // whitespace mode (LTrim/RTrim)
	Memo bool    `json:"memo,omitempty"` // extra Memoize wrapper around this node
	Name string  `json:"name,omitempty"` // .Name(...)
	RS   bool    `json:"rs,omitempty"`   // sequence-like nodes: .HandleResult(ReturnSingle()): a one-element result is the element itself
	Tok  string  `json:"tok,omitempty"`  // sequence-like nodes: .Token(...)
	ID   int     `json:"-"`
}

func (e *Expr) ch() byte { return e.Ch[0] }

// Grammar is a list of rules N_i -> expr with the stratification layers of the rules.
type Grammar struct {
	Rules []*Expr `json:"rules"`
	Layer []int   `json:"layer"`
	// RuleNames[i] != "": the rule's parser is Memoize(body).Name(RuleNames[i]) - the name sits
	// outside the memoization (only applied to memoized rules)
	RuleNames []string `json:"ruleNames,omitempty"`
	all       []*Expr
}

// number assigns IDs in pre-order; must be called after every structural change.
func (g *Grammar) number() {
	g.all = g.all[:0]
	var walk func(e *Expr)
	walk = func(e *Expr) {
		e.ID = len(g.all)
		g.all = append(g.all, e)
		for _, k := range e.Kids {
			walk(k)
		}
	}
	for _, r := range g.Rules {
		walk(r)
	}
}

func (g *Grammar) exprs() []*Expr {
	if g.all == nil {
		g.number()
	}
	return g.all
}

func (e *Expr) String() string {
	var s string
	switch e.K {
	case KTerm:
		s = fmt.Sprintf("%q", e.Ch)
	case KEmpty:
		s = "ε"
	case KRef:
		s = fmt.Sprintf("N%d", e.NT)
	case KLTrim, KRTrim:
		s = fmt.Sprintf("%s%d(%s)", kindNames[e.K], e.Mode, e.Kids[0])
	default:
		parts := make([]string, len(e.Kids))
		for i, k := range e.Kids {
			parts[i] = k.String()
		}
		s = kindNames[e.K] + "(" + strings.Join(parts, ", ") + ")"
	}
	if e.RS {
		s += ".ReturnSingle"
	}
	if e.Tok != "" {
		s += ".Token(" + e.Tok + ")"
	}
	if e.Memo {
		s = "M[" + s + "]"
	}
	if e.Name != "" {
		s += ".Name(" + e.Name + ")"
	}
	return s
}

func (g *Grammar) String() string {
	var sb strings.Builder
	for i, r := range g.Rules {
		l := 0
		if i < len(g.Layer) {
			l = g.Layer[i]
		}
		nm := ""
		if i < len(g.RuleNames) && g.RuleNames[i] != "" {
			nm = ".Name(" + g.RuleNames[i] + ")"
		}
		fmt.Fprintf(&sb, "N%d(L%d)%s -> %s; ", i, l, nm, r)
	}
	return sb.String()
}

func (g *Grammar) clone() *Grammar {
	var cl func(e *Expr) *Expr
	cl = func(e *Expr) *Expr {
		c := *e
		c.Kids = nil
		for _, k := range e.Kids {
			c.Kids = append(c.Kids, cl(k))
		}
		return &c
	}
	ng := &Grammar{Layer: append([]int(nil), g.Layer...), RuleNames: append([]string(nil), g.RuleNames...)}
	for _, r := range g.Rules {
		ng.Rules = append(ng.Rules, cl(r))
	}
	ng.number()
	return ng
}

// small constructors used by corpus / regression cases
func tm(ch byte) *Expr               { return &Expr{K: KTerm, Ch: string([]byte{ch})} }
func rf(nt int) *Expr                { return &Expr{K: KRef, NT: nt} }
func ex(k Kind, kids ...*Expr) *Expr { return &Expr{K: k, Kids: kids} }

// ---------- static analyses ----------

func isSeqLike(k Kind) bool {
	switch k {
	case KSeqOf, KSeqTry, KSeqFirstOrAll, KMany, KMany1, KSepBy, KSepBy1:
		return true
	}
	return false
}

// singleSeesRTrim: does some Single receive, through parsers that hand their operand's node on
// unchanged (alternatives, references, memoization, the trimming parsers, Optional, SuppressError,
// ReturnSingle sequences), the node of a RightTrim whose own operand can hand on a sequence node?
// RightTrim moves the end of that sequence node only; Single then returns its one child, which
// still ends before the whitespace. The reference semantics (Single keeps its operand's ends)
// does not describe that combination.
func singleSeesRTrim(g *Grammar) bool {
	var reach func(e *Expr, pred func(*Expr) bool, seen map[int]bool) bool
	reach = func(e *Expr, pred func(*Expr) bool, seen map[int]bool) bool {
		if pred(e) {
			return true
		}
		switch {
		case e.K == KRef:
			if seen[e.NT] {
				return false
			}
			seen[e.NT] = true
			return reach(g.Rules[e.NT], pred, seen)
		case e.K == KAny || e.K == KChoice || e.K == KOpt || e.K == KSuppress || e.K == KLTrim || e.K == KRTrim || e.K == KSingle || (isSeqLike(e.K) && e.RS):
			for _, k := range e.Kids {
				if reach(k, pred, seen) {
					return true
				}
			}
		}
		return false
	}
	seqNode := func(e *Expr) bool { return isSeqLike(e.K) }
	trimmedSeq := func(e *Expr) bool {
		return e.K == KRTrim && reach(e.Kids[0], seqNode, map[int]bool{})
	}
	for _, e := range g.exprs() {
		if e.K == KSingle && reach(e.Kids[0], trimmedSeq, map[int]bool{}) {
			return true
		}
	}
	return false
}

// nullableRules: may a rule match the empty string (conservative least fixpoint that
// ignores the non-monotone side conditions; over-approximation is what the repairs need).
func nullableRules(g *Grammar) []bool {
	nt := make([]bool, len(g.Rules))
	for {
		ch := false
		for i, r := range g.Rules {
			if !nt[i] && exprNullable(nt, r) {
				nt[i] = true
				ch = true
			}
		}
		if !ch {
			return nt
		}
	}
}

func exprNullable(nt []bool, e *Expr) bool {
	switch e.K {
	case KTerm:
		return false
	case KEmpty, KOpt, KMany, KSepBy:
		return true
	case KRef:
		return nt[e.NT]
	case KAny, KChoice:
		for _, k := range e.Kids {
			if exprNullable(nt, k) {
				return true
			}
		}
		return false
	case KSeqOf:
		for _, k := range e.Kids {
			if !exprNullable(nt, k) {
				return false
			}
		}
		return true
	case KSeqTry, KSeqFirstOrAll, KMany1, KSepBy1, KLTrim, KRTrim, KSuppress, KSingle:
		return exprNullable(nt, e.Kids[0])
	}
	return true
}

// leftCorners computes for each rule the set of rules reachable in left-corner position
// (value: true when every such path goes through a nullable prefix, i.e. "hidden").
func leftCorners(g *Grammar) []map[int]bool {
	nt := nullableRules(g)
	edges := make([]map[int]bool, len(g.Rules))
	var lc func(e *Expr, hid bool, acc map[int]bool)
	lc = func(e *Expr, hid bool, acc map[int]bool) {
		switch e.K {
		case KRef:
			if h, ok := acc[e.NT]; !ok || (h && !hid) {
				acc[e.NT] = hid
			}
		case KAny, KChoice, KOpt, KMany, KMany1, KLTrim, KRTrim, KSuppress, KSingle:
			for _, k := range e.Kids {
				lc(k, hid, acc)
			}
		case KSepBy, KSepBy1:
			lc(e.Kids[0], hid, acc)
			if exprNullable(nt, e.Kids[0]) {
				lc(e.Kids[1], true, acc)
			}
		case KSeqOf, KSeqTry, KSeqFirstOrAll:
			h := hid
			for _, k := range e.Kids {
				lc(k, h, acc)
				if !exprNullable(nt, k) {
					break
				}
				h = true
			}
		}
	}
	for i, r := range g.Rules {
		edges[i] = map[int]bool{}
		lc(r, false, edges[i])
	}
	return edges
}

type lrClass struct{ Direct, Indirect, Hidden, Any bool }

// classifyLR says which kinds of left recursion the grammar contains.
func classifyLR(g *Grammar) lrClass {
	n := len(g.Rules)
	edges := leftCorners(g)
	var c lrClass
	for i := 0; i < n; i++ {
		if h, ok := edges[i][i]; ok {
			c.Any = true
			if h {
				c.Hidden = true
			} else {
				c.Direct = true
			}
		}
	}
	reach := make([][]bool, n)
	hid := make([][]bool, n)
	for i := range reach {
		reach[i] = make([]bool, n)
		hid[i] = make([]bool, n)
		for j, h := range edges[i] {
			if j != i {
				reach[i][j] = true
				hid[i][j] = h
			}
		}
	}
	for k := 0; k < n; k++ {
		for i := 0; i < n; i++ {
			for j := 0; j < n; j++ {
				if reach[i][k] && reach[k][j] {
					if !reach[i][j] {
						hid[i][j] = hid[i][k] || hid[k][j]
					}
					reach[i][j] = true
				}
			}
		}
	}
	for i := 0; i < n; i++ {
		if reach[i][i] {
			c.Indirect, c.Any = true, true
			if hid[i][i] {
				c.Hidden = true
			}
		}
	}
	return c
}

// leftRecursiveRules marks the rules that can reach themselves in left-corner position.
func leftRecursiveRules(g *Grammar) []bool {
	n := len(g.Rules)
	edges := leftCorners(g)
	reach := make([][]bool, n)
	for i := range reach {
		reach[i] = make([]bool, n)
		for j := range edges[i] {
			reach[i][j] = true
		}
	}
	for k := 0; k < n; k++ {
		for i := 0; i < n; i++ {
			for j := 0; j < n; j++ {
				if reach[i][k] && reach[k][j] {
					reach[i][j] = true
				}
			}
		}
	}
	out := make([]bool, n)
	for i := range out {
		out[i] = reach[i][i]
	}
	return out
}

// recursiveRules marks the rules that can reach themselves through any reference.
func recursiveRules(g *Grammar) []bool {
	n := len(g.Rules)
	reach := make([][]bool, n)
	var refs func(e *Expr, acc []bool)
	refs = func(e *Expr, acc []bool) {
		if e.K == KRef {
			acc[e.NT] = true
		}
		for _, k := range e.Kids {
			refs(k, acc)
		}
	}
	for i, r := range g.Rules {
		reach[i] = make([]bool, n)
		refs(r, reach[i])
	}
	for k := 0; k < n; k++ {
		for i := 0; i < n; i++ {
			for j := 0; j < n; j++ {
				if reach[i][k] && reach[k][j] {
					reach[i][j] = true
				}
			}
		}
	}
	out := make([]bool, n)
	for i := range out {
		out[i] = reach[i][i]
	}
	return out
}

func hasKind(g *Grammar, ks ...Kind) bool {
	for _, e := range g.exprs() {
		for _, k := range ks {
			if e.K == k {
				return true
			}
		}
	}
	return false
}

// loudRules: a node is loud when every way it can return no result involves a failed
// terminal attempt at or after its start, treating a same-position recursive reference as
// a silent failure (least fixpoint). See DESIGN.md, C06.
func loudRules(g *Grammar) []bool {
	lr := make([]bool, len(g.Rules))
	var le func(e *Expr) bool
	le = func(e *Expr) bool {
		switch e.K {
		case KTerm, KEmpty, KOpt, KMany, KSepBy:
			return true
		case KRef:
			return lr[e.NT]
		case KAny, KChoice:
			for _, k := range e.Kids {
				if le(k) {
					return true
				}
			}
			return false
		default:
			for _, k := range e.Kids {
				if !le(k) {
					return false
				}
			}
			return true
		}
	}
	for {
		ch := false
		for i, r := range g.Rules {
			if !lr[i] && le(r) {
				lr[i] = true
				ch = true
			}
		}
		if !ch {
			return lr
		}
	}
}

// makeLoud repairs rules that are not loud by adding a terminal alternative.
func makeLoud(g *Grammar) {
	for {
		lr := loudRules(g)
		done := true
		for i, ok := range lr {
			if !ok {
				g.Rules[i] = &Expr{K: KAny, Kids: []*Expr{g.Rules[i], tm('a')}}
				done = false
				break
			}
		}
		if done {
			g.number()
			return
		}
	}
}

func lineCol(in string, off int) (int, int) {
	line, col := 1, 1
	for i := 0; i < off && i < len(in); i++ {
		if in[i] == '\n' {
			line++
			col = 1
		} else {
			col++
		}
	}
	return line, col
}

func normCRLF(b []byte) []byte {
	o := make([]byte, 0, len(b))
	for i := 0; i < len(b); i++ {
		if b[i] == '\r' && i+1 < len(b) && b[i+1] == '\n' {
			o = append(o, '\n')
			i++
			continue
		}
		o = append(o, b[i])
	}
	return o
}
