package harness

import (
	"bytes"
	"fmt"
	"os"
	"path/filepath"
	"regexp"
	"strings"
	"testing"
	"unicode/utf8"

	"github.com/opsidian/parsley/parsley"
	"github.com/opsidian/parsley/text"
	"pgregory.net/rapid"
)

// C09Case: a file content, how its base offset is assigned (preceding files of a file set
// or SetOffset directly) and the arguments tried at every position of the file.
type C09Case struct {
	Data        []byte   `json:"data"`
	PreLens     []int    `json:"preLens"`   // lengths of the files added before it
	SetOffset   int      `json:"setOffset"` // > 0: File.SetOffset(n) instead of a file set
	Runes       []rune   `json:"runes"`
	Strs        [][]byte `json:"strs"`
	Words       []string `json:"words"`
	Regexps     []string `json:"regexps"`
	TakeN       []int    `json:"takeN"`                 // Readf functions: consume min(n, len) bytes
	ReaderFirst bool     `json:"readerFirst,omitempty"` // NewReader before the base offset is assigned
	ViaDisk     bool     `json:"viaDisk,omitempty"`     // the file is written to disk and loaded with text.ReadFile
}

func (c *C09Case) Describe() string {
	return fmt.Sprintf("data=%q preLens=%v setOffset=%d runes=%q strs=%q words=%q regexps=%q takeN=%v", c.Data, c.PreLens, c.SetOffset, c.Runes, c.Strs, c.Words, c.Regexps, c.TakeN)
}

var contentFrags = []string{" ", "\t", "\n", "\r\n", "\r", "\f", "a", "b", "ab", "_", "9", "é", "\xc3", "\xff", "😀", "\xf0\x9f", "=", "==", "let", "A", "\x00", "\v"}

func genContent(t *rapid.T, label string, maxn int) []byte {
	n := rapid.IntRange(0, maxn).Draw(t, label+"n")
	b := []byte{}
	for i := 0; i < n; i++ {
		if rapid.IntRange(0, 5).Draw(t, label+"raw") == 0 {
			b = append(b, rapid.Byte().Draw(t, label+"byte"))
		} else {
			b = append(b, contentFrags[rapid.IntRange(0, len(contentFrags)-1).Draw(t, label+"frag")]...)
		}
	}
	return b
}

// genRegexp draws a regular expression that cannot match the empty string.
func genRegexp(t *rapid.T) string {
	atom := func() string {
		return rapid.SampledFrom([]string{"a", "b", "[ab]", "[^a]", ".", "\\s", "\\w", "é", "[[:alpha:]]", "\\x{1F600}", "=", "(?i:A)", "(a)", "(?:ab)", "\\n", "[\\x80-\\xff]"}).Draw(t, "atom")
	}
	suffix := func() string { return rapid.SampledFrom([]string{"", "", "+", "*", "?", "{1,2}"}).Draw(t, "suffix") }
	alt := func() string {
		s := atom() + rapid.SampledFrom([]string{"", "", "+", "{1,2}"}).Draw(t, "suffix1")
		k := rapid.IntRange(0, 2).Draw(t, "atoms")
		for i := 0; i < k; i++ {
			s += atom() + suffix()
		}
		return s
	}
	s := alt()
	if rapid.IntRange(0, 2).Draw(t, "alternation") == 0 {
		s += "|" + alt()
	}
	return s
}

func genC09(t *rapid.T) interface{} {
	c := &C09Case{Data: genContent(t, "d", 8), PreLens: []int{}}
	long := rapid.IntRange(0, 24).Draw(t, "long") == 11
	if long {
		// tokens longer than any look-ahead window: a quoted string, a run of one letter closed by
		// another, a long number - each 200-700 bytes, positions far from both ends included
		n := rapid.SampledFrom([]int{200, 254, 255, 256, 257, 300, 511, 512, 700}).Draw(t, "longN")
		switch rapid.IntRange(0, 2).Draw(t, "longKind") {
		case 0:
			c.Data = append(append([]byte(`x "`), bytes.Repeat([]byte("q"), n)...), []byte(`" y`)...)
		case 1:
			c.Data = append(bytes.Repeat([]byte("a"), n), []byte("b a")...)
		default:
			c.Data = append(append([]byte("7"), bytes.Repeat([]byte("0"), n)...), []byte(".5 ")...)
		}
	}
	switch rapid.IntRange(0, 3).Draw(t, "placement") {
	case 0:
	case 1:
		c.SetOffset = rapid.IntRange(1, 1000).Draw(t, "offset")
		if rapid.IntRange(0, 3).Draw(t, "bigoffset") == 2 {
			// beyond 8, 16 and 31 bits
			c.SetOffset = rapid.SampledFrom([]int{255, 256, 65535, 65536, 70001, 1 << 20, 1<<31 - 64, 1 << 32}).Draw(t, "big")
		}
	default:
		k := rapid.IntRange(1, 3).Draw(t, "npre")
		for i := 0; i < k; i++ {
			c.PreLens = append(c.PreLens, rapid.IntRange(0, 12).Draw(t, "prelen"))
		}
	}
	d := normCRLF(c.Data)
	sub := func(label string) string {
		if len(d) == 0 {
			return "a"
		}
		i := rapid.IntRange(0, len(d)-1).Draw(t, label+"i")
		j := rapid.IntRange(i+1, min(len(d), i+4)).Draw(t, label+"j")
		return string(d[i:j])
	}
	c.Runes = []rune{'a', ' ', '\n', 'é', '😀', 0x7f, 0x80, 0xff, utf8.RuneError}
	for i := 0; i < 2; i++ {
		if len(d) > 0 {
			r, _ := utf8.DecodeRune(d[rapid.IntRange(0, len(d)-1).Draw(t, "runeAt"):])
			if r != utf8.RuneError {
				c.Runes = append(c.Runes, r)
			}
		}
	}
	c.Strs = [][]byte{[]byte("a"), []byte("ab"), []byte("=="), []byte("é"), []byte("\xff"), []byte("\n"), []byte(sub("s1")), []byte(sub("s2"))}
	c.Words = []string{"a", "ab", "=", "a b", "_9", "let"}
	for i := 0; i < 2; i++ {
		w := sub("w")
		ascii := true
		for _, b := range []byte(w) {
			if b >= utf8.RuneSelf {
				ascii = false
			}
		}
		if ascii {
			c.Words = append(c.Words, w)
		}
	}
	c.Regexps = []string{"a+", "a|ab", "ab|a", "(a)(b)?", "\\s+", genRegexp(t), genRegexp(t)}
	if rapid.IntRange(0, 3).Draw(t, "manyRegexps") == 0 {
		// more distinct expressions on one reader than any bounded table of compiled patterns holds
		for k := 1; k <= 10; k++ {
			c.Regexps = append(c.Regexps, fmt.Sprintf("[ab]{%d}", k), fmt.Sprintf("a{%d}b?", k))
		}
	}
	if long {
		c.Regexps = append(c.Regexps, `"[^"]*"`, `a+b|a`, `a+b`, `[0-9]+\.[0-9]+`, `[0-9]+`, `a*?b`)
	}
	c.TakeN = []int{1, rapid.IntRange(1, 6).Draw(t, "take")}
	c.ReaderFirst = rapid.IntRange(0, 2).Draw(t, "readerFirst") == 0
	c.ViaDisk = rapid.IntRange(0, 5).Draw(t, "viaDisk") == 3
	return c
}

// modelReadRune is the byte-level specification of ReadRune for valid scalar values other
// than U+FFFD: the UTF-8 encoding of the rune is a prefix of the rest of the file.
func modelPrefix(d []byte, o int, enc []byte) bool { return bytes.HasPrefix(d[o:], enc) }

func checkC09(ci interface{}, st *Stats) error {
	c := ci.(*C09Case)
	f := newFileOwned("main", c.Data)
	if c.ViaDisk {
		var err error
		if f, _, err = fileViaDisk(c.Data); err != nil {
			return Discard{"cannot write a temporary file: " + err.Error()}
		}
		st.Class("loaded with text.ReadFile")
	}
	d := normCRLF(c.Data)
	var r *text.Reader
	if c.ReaderFirst {
		r = text.NewReader(f)
	}
	base := 1
	switch {
	case c.SetOffset > 0:
		f.SetOffset(c.SetOffset)
		base = c.SetOffset
	case len(c.PreLens) > 0:
		var fl []parsley.File
		for i, n := range c.PreLens {
			fl = append(fl, text.NewFile(fmt.Sprintf("pre%d", i), bytes.Repeat([]byte("x"), n)))
			base += n + 1
		}
		fl = append(fl, f)
		parsley.NewFileSet(fl...)
	default:
		parsley.NewFileSet(f)
	}
	if f.Len() != len(d) {
		return fmt.Errorf("File.Len() = %d, CRLF-normalised content has %d bytes", f.Len(), len(d))
	}
	if r == nil {
		r = text.NewReader(f)
	}
	// a second reader and file with the regexps used in a different order must agree (cache keyed by expression)
	for o := 0; o <= len(d); o++ {
		if len(d) > 64 && o > 8 && o < len(d)-8 && o%61 != 0 {
			continue // long contents: both ends and every 61st offset
		}
		pos := parsley.Pos(base + o)
		if f.Pos(o) != pos || r.Pos(o) != pos {
			return fmt.Errorf("Pos(%d) = %d / %d, want %d", o, f.Pos(o), r.Pos(o), pos)
		}
		if got := r.Remaining(pos); got != len(d)-o {
			return fmt.Errorf("Remaining at offset %d = %d, want %d", o, got, len(d)-o)
		}
		if got := r.IsEOF(pos); got != (o == len(d)) {
			return fmt.Errorf("IsEOF at offset %d = %v", o, got)
		}
		chk := func(what string, np parsley.Pos, ok bool, wok bool, wlen int) error {
			if ok != wok {
				return fmt.Errorf("%s at offset %d of %q: matched=%v, specification says %v", what, o, d, ok, wok)
			}
			if ok && int(np) != int(pos)+wlen {
				return fmt.Errorf("%s at offset %d of %q: new position %d, want old+%d = %d", what, o, d, np, wlen, int(pos)+wlen)
			}
			if !ok && np != pos {
				return fmt.Errorf("%s at offset %d of %q: mismatch must return the original position %d, got %d", what, o, d, pos, np)
			}
			if int(np) > base+len(d) {
				return fmt.Errorf("%s at offset %d: position %d is beyond the end of the file", what, o, np)
			}
			return nil
		}
		for _, ch := range c.Runes {
			if !utf8.ValidRune(ch) {
				continue
			}
			// specification: the next rune, as Go decodes it, is ch (for every valid rune other than
			// U+FFFD that is "the encoding of ch is a prefix of the rest"; U+FFFD also stands for one
			// undecodable byte); the position advances by the decoded width
			wok, wlen := false, 0
			if o < len(d) {
				if dr, w := utf8.DecodeRune(d[o:]); dr == ch {
					wok, wlen = true, w
				}
			}
			if ch != utf8.RuneError && wok != modelPrefix(d, o, []byte(string(ch))) {
				return fmt.Errorf("model error: decode and prefix specifications disagree for %q", ch)
			}
			np, ok := r.ReadRune(pos, ch)
			if err := chk(fmt.Sprintf("ReadRune(%q)", ch), np, ok, wok, wlen); err != nil {
				return err
			}
		}
		for _, sb := range c.Strs {
			s := string(sb)
			if s == "" {
				continue
			}
			np, ok := r.MatchString(pos, s)
			if err := chk(fmt.Sprintf("MatchString(%q)", s), np, ok, modelPrefix(d, o, []byte(s)), len(s)); err != nil {
				return err
			}
		}
		for _, w := range c.Words {
			if w == "" || !isASCII(w) {
				continue
			}
			np, ok := r.MatchWord(pos, w)
			_, wok := ModelWord(d, o, w)
			if err := chk(fmt.Sprintf("MatchWord(%q)", w), np, ok, wok, len(w)); err != nil {
				return err
			}
		}
		for _, ex := range c.Regexps {
			re, err := regexp.Compile(ex)
			if err != nil || re.Match(nil) {
				continue // outside the documented domain
			}
			if _, err := regexp.Compile("(?:" + ex + ")"); err != nil {
				continue // e.g. an unterminated \\Q quote: not an expression that can be embedded
			}
			var loc []int
			if o < len(d) {
				loc = re.FindSubmatchIndex(d[o:])
				if loc != nil && loc[0] != 0 {
					loc = nil
				}
			}
			np, m := r.ReadRegexp(pos, ex)
			wlen := 0
			if loc != nil {
				wlen = loc[1]
			}
			if err := chk(fmt.Sprintf("ReadRegexp(%q)", ex), np, m != nil, loc != nil, wlen); err != nil {
				return err
			}
			if m != nil && !bytes.Equal(m, d[o:o+wlen]) {
				return fmt.Errorf("ReadRegexp(%q) at offset %d returned %q, want %q", ex, o, m, d[o:o+wlen])
			}
			np2, sm := r.ReadRegexpSubmatch(pos, ex)
			if err := chk(fmt.Sprintf("ReadRegexpSubmatch(%q)", ex), np2, sm != nil, loc != nil, wlen); err != nil {
				return err
			}
			if sm != nil {
				if len(sm) != len(loc)/2 {
					return fmt.Errorf("ReadRegexpSubmatch(%q) returned %d groups, want %d", ex, len(sm), len(loc)/2)
				}
				for gi := range sm {
					var want []byte
					if loc[2*gi] >= 0 {
						want = d[o+loc[2*gi] : o+loc[2*gi+1]]
					}
					if !bytes.Equal(sm[gi], want) || (sm[gi] == nil) != (loc[2*gi] < 0) {
						return fmt.Errorf("ReadRegexpSubmatch(%q) at offset %d group %d = %q, want %q", ex, o, gi, sm[gi], want)
					}
				}
			}
		}
		for _, n := range c.TakeN {
			if n <= 0 {
				continue
			}
			called, seen := false, -1
			np, v := r.Readf(pos, func(b []byte) ([]byte, int) {
				called, seen = true, len(b)
				k := min(n, len(b))
				return b[:k], k
			})
			if o == len(d) {
				if called || v != nil || np != pos {
					return fmt.Errorf("Readf at end of file: called=%v value=%q pos=%d", called, v, np)
				}
				continue
			}
			k := min(n, len(d)-o)
			if !called || seen != len(d)-o {
				return fmt.Errorf("Readf at offset %d handed %d bytes to the function, the file has %d remaining", o, seen, len(d)-o)
			}
			if int(np) != int(pos)+k || !bytes.Equal(v, d[o:o+k]) {
				return fmt.Errorf("Readf(take %d) at offset %d: position %d value %q, want %d %q", n, o, np, v, int(pos)+k, d[o:o+k])
			}
			// a function that consumes k bytes and has no value to return (a comment skipper), and one
			// whose value is shorter than what it consumed
			np, v = r.Readf(pos, func(b []byte) ([]byte, int) { return nil, k })
			if int(np) != int(pos)+k || v != nil {
				return fmt.Errorf("Readf with a function that consumes %d bytes without a value at offset %d: position %d value %q, want %d and no value", k, o, np, v, int(pos)+k)
			}
			np, v = r.Readf(pos, func(b []byte) ([]byte, int) { return b[:k/2], k })
			if int(np) != int(pos)+k || !bytes.Equal(v, d[o:o+k/2]) {
				return fmt.Errorf("Readf with a value shorter than the consumed %d bytes at offset %d: position %d value %q", k, o, np, v)
			}
			// a length beyond the end of the file is refused (the documented panic), with or without a value
			for _, withValue := range []bool{true, false} {
				refused := func() (refused bool) {
					defer func() { refused = recover() != nil }()
					r.Readf(pos, func(b []byte) ([]byte, int) {
						if withValue {
							return b, len(b) + 1
						}
						return nil, len(b) + 1
					})
					return false
				}()
				if !refused {
					return fmt.Errorf("Readf at offset %d accepted a length one beyond the end of the file (value returned: %v)", o, withValue)
				}
			}
			// a function that declines
			np, v = r.Readf(pos, func(b []byte) ([]byte, int) { return nil, 0 })
			if np != pos || v != nil {
				return fmt.Errorf("Readf with a declining function moved to %d / returned %q", np, v)
			}
		}
		// SkipWhitespaces
		e, nl := o, -1
		for e < len(d) && isWS(d[e]) {
			if (d[e] == '\n' || d[e] == '\f') && nl < 0 {
				nl = e
			}
			e++
		}
		for m := text.WsNone; m <= text.WsSpacesForceNl; m++ {
			np, err := r.SkipWhitespaces(pos, m)
			wantErr, wantPos := "", -1
			switch {
			case m == text.WsNone && e > o:
				wantErr, wantPos = wsErrText[0], o
			case m == text.WsSpaces && nl >= 0:
				wantErr, wantPos = wsErrText[1], nl
			case m == text.WsSpacesForceNl && nl < 0:
				wantErr, wantPos = wsErrText[3], e
			}
			if int(np) != base+e {
				return fmt.Errorf("SkipWhitespaces(mode %d) at offset %d of %q skipped to %d, the whitespace run ends at %d", m, o, d, int(np)-base, e)
			}
			if (err != nil) != (wantErr != "") || (err != nil && (err.Error() != wantErr || int(err.Pos()) != base+wantPos)) {
				return fmt.Errorf("SkipWhitespaces(mode %d) at offset %d of %q: error %v, want %q at offset %d", m, o, d, err, wantErr, wantPos)
			}
			if err != nil && !parsley.IsWhitespaceError(err) {
				return fmt.Errorf("SkipWhitespaces error %v is not a whitespace error", err)
			}
		}
	}
	st.Class("files")
	nt := base != 1
	if base != 1 {
		st.Class("base offset != 1")
	}
	if c.SetOffset > 0 {
		st.Class("offset set directly")
	}
	for i := 0; i < len(d); i++ {
		if d[i] >= utf8.RuneSelf {
			if rr, _ := utf8.DecodeRune(d[i:]); rr == utf8.RuneError {
				st.Class("content with a truncated / invalid rune")
			} else {
				st.Class("content with a multi-byte rune")
			}
			nt = true
			break
		}
	}
	if bytes.Contains(c.Data, []byte("\r\n")) {
		st.Class("content with CRLF")
	}
	if len(d) > 0 {
		nt = true // positions within 2 bytes of the end of a non-empty file are always visited
	}
	if nt {
		st.NonTrivial()
	}
	return nil
}

// fileViaDisk writes the bytes to a temporary file and loads it with text.ReadFile.
func fileViaDisk(data []byte) (*text.File, string, error) { return fileViaDiskSpelled(data, 0) }

// fileViaDiskSpelled: the path handed to text.ReadFile is spelled dir/./base (1), dir//base (2) or
// dir/../dir/base (3): the same file, and the name the caller used is the file's name.
func fileViaDiskSpelled(data []byte, spell int) (*text.File, string, error) {
	// in the shard's own scratch directory when run by ./check, else the system's temp directory
	tmp, err := os.CreateTemp(os.Getenv("VERIF_OUT"), "verif-readfile-*")
	if err != nil {
		return nil, "", err
	}
	name := tmp.Name()
	defer os.Remove(name)
	if _, err := tmp.Write(data); err != nil {
		tmp.Close()
		return nil, "", err
	}
	if err := tmp.Close(); err != nil {
		return nil, "", err
	}
	dir, base := filepath.Split(name)
	dir = strings.TrimSuffix(dir, "/")
	spelled := name
	switch spell {
	case 1:
		spelled = dir + "/./" + base
	case 2:
		spelled = dir + "//" + base
	case 3:
		spelled = dir + "/../" + filepath.Base(dir) + "/" + base
	}
	f, err := text.ReadFile(spelled)
	return f, spelled, err
}

func isASCII(s string) bool {
	for i := 0; i < len(s); i++ {
		if s[i] >= utf8.RuneSelf {
			return false
		}
	}
	return true
}

func init() {
	register(&Property{ID: "C09", NewCase: func() interface{} { return &C09Case{} }, Gen: genC09, Check: func(ci interface{}, st *Stats) (err error) {
		defer func() {
			if r := recover(); r != nil {
				if _, ok := r.(budgetExceeded); ok {
					panic(r)
				}
				err = fmt.Errorf("a reader primitive panicked: %v", r)
			}
		}()
		return checkC09(ci, st)
	}})
}

func TestC09(t *testing.T) { RunProperty(t, "C09") }

// FuzzC09: content, placement and arguments decoded from bytes, same byte-level model.
func FuzzC09(f *testing.F) {
	f.Add([]byte("ab \n\tab"), uint16(0), "ab", "a+")
	f.Add([]byte("é\xc3"), uint16(7), "é", "[^a]")
	f.Add([]byte("let x\r\n"), uint16(300), "let", "\\w+")
	f.Fuzz(func(t *testing.T, data []byte, off uint16, s string, re string) {
		if len(data) > 48 || len(s) > 8 || len(re) > 12 {
			return
		}
		c := &C09Case{Data: data, SetOffset: int(off), Runes: []rune{'a', 'é', '😀', 0xff}, TakeN: []int{1, 3}}
		if s != "" {
			c.Strs = [][]byte{[]byte(s)}
			if isASCII(s) {
				c.Words = []string{s}
			}
			if r, _ := utf8.DecodeRuneInString(s); r != utf8.RuneError {
				c.Runes = append(c.Runes, r)
			}
		}
		c.Regexps = []string{re}
		st := newStats("C09")
		var err error
		func() {
			defer func() {
				if r := recover(); r != nil {
					err = fmt.Errorf("a reader primitive panicked: %v", r)
				}
			}()
			err = checkC09(c, st)
		}()
		if err != nil {
			fuzzFail(t, "C09", c, err)
		}
	})
}
