package harness

import (
	"strconv"
	"time"
	"unicode/utf8"
)

// Expectation of a literal scanner at data[off:]
type Lit struct {
	Match   bool
	End     int
	Value   interface{}
	Lenient bool          // documentation silent: any outcome except a panic is accepted
	Alt     []interface{} // further acceptable values
	// RawBreakEarly (strings): a raw line feed or carriage return stands in the literal before any
	// backslash or non-ASCII byte. The library's own tests pin that such a literal is no string
	// (behind an escape or a multi-byte rune the implementation is inconsistent: Lenient).
	RawBreakEarly bool
}

func isDig(c byte) bool { return c >= '0' && c <= '9' }
func isWordCh(c byte) bool {
	return c == '_' || isDig(c) || c >= 'a' && c <= 'z' || c >= 'A' && c <= 'Z'
}

func ModelInteger(d []byte, off int) Lit {
	j := off
	if j < len(d) && (d[j] == '-' || d[j] == '+') {
		j++
	}
	if j >= len(d) {
		return Lit{}
	}
	switch {
	case d[j] >= '1' && d[j] <= '9':
		for j < len(d) && isDig(d[j]) {
			j++
		}
	case d[j] == '0':
		if j+2 < len(d) && (d[j+1] == 'x' || d[j+1] == 'X') && isHex(d[j+2]) {
			j += 2
			for j < len(d) && isHex(d[j]) {
				j++
			}
		} else {
			j++
			for j < len(d) && d[j] >= '0' && d[j] <= '7' {
				j++
			}
		}
	default:
		return Lit{}
	}
	if j < len(d) && d[j] == '.' {
		return Lit{}
	}
	v, err := strconv.ParseInt(string(d[off:j]), 0, 64)
	if err != nil {
		return Lit{}
	}
	return Lit{Match: true, End: j, Value: v}
}

func ModelFloat(d []byte, off int) Lit {
	j := off
	if j < len(d) && (d[j] == '-' || d[j] == '+') {
		j++
	}
	for j < len(d) && isDig(d[j]) {
		j++
	}
	if j >= len(d) || d[j] != '.' {
		return Lit{}
	}
	j++
	if j >= len(d) || !isDig(d[j]) {
		return Lit{}
	}
	for j < len(d) && isDig(d[j]) {
		j++
	}
	if j < len(d) && (d[j] == 'e' || d[j] == 'E') {
		k := j + 1
		if k < len(d) && (d[k] == '-' || d[k] == '+') {
			k++
		}
		if k < len(d) && isDig(d[k]) {
			for k < len(d) && isDig(d[k]) {
				k++
			}
			j = k
		}
	}
	v, err := strconv.ParseFloat(string(d[off:j]), 64)
	if err != nil {
		return Lit{}
	}
	return Lit{Match: true, End: j, Value: v}
}

var durUnits = []string{"ns", "us", "µs", "μs", "ms", "s", "m", "h"}

func ModelDuration(d []byte, off int) Lit {
	j := off
	if j < len(d) && (d[j] == '-' || d[j] == '+') {
		j++
	}
	groups := 0
	for {
		k := j
		if k >= len(d) || !isDig(d[k]) {
			break
		}
		for k < len(d) && isDig(d[k]) {
			k++
		}
		if k+1 < len(d) && d[k] == '.' && isDig(d[k+1]) {
			k++
			for k < len(d) && isDig(d[k]) {
				k++
			}
		}
		matched := false
		for _, u := range durUnits {
			if k+len(u) <= len(d) && string(d[k:k+len(u)]) == u {
				k += len(u)
				matched = true
				break
			}
		}
		if !matched {
			break
		}
		j = k
		groups++
	}
	if groups == 0 {
		return Lit{}
	}
	v, err := time.ParseDuration(string(d[off:j]))
	if err != nil {
		return Lit{}
	}
	return Lit{Match: true, End: j, Value: v}
}

func ModelWord(d []byte, off int, w string) (int, bool) {
	if off+len(w) > len(d) || string(d[off:off+len(w)]) != w {
		return 0, false
	}
	e := off + len(w)
	if e < len(d) && isWordCh(d[e]) {
		return 0, false
	}
	return e, true
}

func ModelPrefix(d []byte, off int, s string) (int, bool) {
	if off+len(s) > len(d) || string(d[off:off+len(s)]) != s {
		return 0, false
	}
	return off + len(s), true
}

// decodeEscape decodes one Go escape sequence starting at d[j]=='\\'; quote is the active quote.
// returns rune, new index, ok
func decodeEscape(d []byte, j int, quote byte, allowOctal bool, allowed string) (rune, int, bool) {
	if j+1 >= len(d) {
		return 0, 0, false
	}
	c := d[j+1]
	simple := map[byte]rune{'a': 7, 'b': 8, 'f': 12, 'n': 10, 'r': 13, 't': 9, 'v': 11}
	if allowOctal {
		simple['\\'] = '\\'
	}
	hexn := func(n int) (rune, int, bool) {
		if j+2+n > len(d) {
			return 0, 0, false
		}
		var v rune
		for _, h := range d[j+2 : j+2+n] {
			if !isHex(h) {
				return 0, 0, false
			}
			x, _ := strconv.ParseUint(string(h), 16, 8)
			v = v<<4 | rune(x)
		}
		return v, j + 2 + n, true
	}
	switch {
	case c == quote:
		return rune(quote), j + 2, true
	case c == 'x':
		return hexn(2)
	case c == 'u' || c == 'U':
		n := 4
		if c == 'U' {
			n = 8
		}
		v, e, ok := hexn(n)
		if !ok || !utf8.ValidRune(v) {
			return 0, 0, false
		}
		return v, e, true
	case allowOctal && c >= '0' && c <= '7':
		if j+4 > len(d) {
			return 0, 0, false
		}
		var v rune
		for _, o := range d[j+1 : j+4] {
			if o < '0' || o > '7' {
				return 0, 0, false
			}
			v = v*8 + rune(o-'0')
		}
		if v > 255 {
			return 0, 0, false
		}
		return v, j + 4, true
	}
	if r, ok := simple[c]; ok {
		return r, j + 2, true
	}
	return 0, 0, false
}

// ModelString: double-quoted (Go interpreted-string escapes, each escape a code point) or, if allowed, back-quoted raw
func ModelString(d []byte, off int, allowBackquote bool) Lit {
	if off >= len(d) {
		return Lit{}
	}
	q := d[off]
	if q == '`' && allowBackquote {
		j := off + 1
		for j < len(d) && d[j] != '`' {
			j++
		}
		if j >= len(d) {
			return Lit{}
		}
		return Lit{Match: true, End: j + 1, Value: string(d[off+1 : j])}
	}
	if q != '"' {
		return Lit{}
	}
	j := off + 1
	var val, valRepl []byte
	lenient := false
	plain, early := true, false // plain: only unescaped ASCII so far
	for {
		if j >= len(d) {
			return Lit{Lenient: lenient, RawBreakEarly: early}
		}
		c := d[j]
		if c == '\\' || c >= utf8.RuneSelf {
			plain = false
		}
		switch {
		case c == '"':
			l := Lit{Match: true, End: j + 1, Value: string(val), Lenient: lenient, RawBreakEarly: early}
			if lenient {
				l.Alt = []interface{}{string(valRepl)}
			}
			return l
		case c == '\n' || c == '\r':
			// raw line break inside an interpreted string: documentation silent / implementation inconsistent
			lenient = true
			early = early || plain
			val = append(val, c)
			valRepl = append(valRepl, c)
			j++
		case c == '\\':
			r, e, ok := decodeEscape(d, j, '"', true, "")
			if !ok {
				return Lit{Lenient: lenient, RawBreakEarly: early}
			}
			val = utf8.AppendRune(val, r)
			valRepl = utf8.AppendRune(valRepl, r)
			j = e
		case c < utf8.RuneSelf:
			val = append(val, c)
			valRepl = append(valRepl, c)
			j++
		default:
			r, size := utf8.DecodeRune(d[j:])
			if r == utf8.RuneError && size == 1 {
				lenient = true // invalid UTF-8: kept raw, replaced, or rejected
				val = append(val, c)
				valRepl = utf8.AppendRune(valRepl, utf8.RuneError)
			} else {
				val = append(val, d[j:j+size]...)
				valRepl = append(valRepl, d[j:j+size]...)
			}
			j += size
		}
	}
}

// ModelChar: '<one char or one of the documented escapes>'
func ModelChar(d []byte, off int) Lit {
	if off >= len(d) || d[off] != '\'' {
		return Lit{}
	}
	j := off + 1
	if j >= len(d) {
		return Lit{}
	}
	var r rune
	switch {
	case d[j] == '\\':
		// documented escapes: \a \b \f \n \r \t \v \' \xHH \uHHHH \UHHHHHHHH  (no \\ , no octal, no \")
		rr, e, ok := decodeEscape(d, j, '\'', false, "")
		if !ok {
			// valid Go rune literals outside Char's documented escape list (\\ and octal): the
			// documentation is silent, so rejecting or accepting with Go's value are both fine
			if r2, e2, ok2 := decodeEscape(d, j, '\'', true, ""); ok2 && e2 < len(d) && d[e2] == '\'' {
				return Lit{Match: true, End: e2 + 1, Value: r2, Lenient: true}
			}
			// a lone backslash counts as "one character" for the scanner but has no valid value
			return Lit{}
		}
		r, j = rr, e
	case d[j] == '\'':
		return Lit{}
	default:
		rr, size := utf8.DecodeRune(d[j:])
		r, j = rr, j+size
	}
	if j >= len(d) || d[j] != '\'' {
		return Lit{}
	}
	return Lit{Match: true, End: j + 1, Value: r}
}
