package harness

import (
	"bytes"
	"fmt"
	"strings"
	"testing"

	"github.com/opsidian/parsley/ast"
	"github.com/opsidian/parsley/ast/interpreter"
	"github.com/opsidian/parsley/combinator"
	"github.com/opsidian/parsley/data"
	"github.com/opsidian/parsley/parser"
	"github.com/opsidian/parsley/parsley"
	"github.com/opsidian/parsley/text"
	"github.com/opsidian/parsley/text/terminal"
	"pgregory.net/rapid"
)

// C12Case: a workload grammar, an input for it, and the lengths of the files that precede
// the parsed file in the file set.
type C12Case struct {
	Workload    string   `json:"workload"`
	In          string   `json:"in"`
	Pre         [][]byte `json:"pre"`
	Post        [][]byte `json:"post,omitempty"`        // files added after the parsed one
	ReaderFirst bool     `json:"readerFirst,omitempty"` // the reader is created before the file is added to the set
	Touch       bool     `json:"touch,omitempty"`       // positions of the surrounding files are looked up on the set before and between the renderings
	Twice       bool     `json:"twice,omitempty"`       // the parsed file is added to its set a second time (AddFile) before the parse
	Reuse       bool     `json:"reuse,omitempty"`       // file and reader were already used for a parse (file alone in a set) before the file is placed
	ReuseCtx    bool     `json:"reuseCtx,omitempty"`    // with Reuse: the very same context served the first evaluation (file in no set yet) and serves the parse after placement
	GiantPre    bool     `json:"giantPre,omitempty"`    // a first file of 2^31 bytes (a stand-in that only knows its length): base offsets beyond 32 bits
	HugePre     int      `json:"hugePre,omitempty"`     // > 0: additionally a first file of that many bytes (positions beyond 16 bits)
	G           *Grammar `json:"g,omitempty"`           // workload "grammar": a generated grammar
	Toks        *C10Case `json:"toks,omitempty"`        // workload "tokens": a generated C10 token sequence (In is its source)
	Lit         *C08Case `json:"lit,omitempty"`         // workload "literal": every literal parser at every offset of Lit.Data
}

func (c *C12Case) Describe() string {
	s := fmt.Sprintf("workload=%s input=%q preceding files=%q following files=%q", c.Workload, c.In, c.Pre, c.Post)
	if c.G != nil {
		s += " grammar: " + c.G.String()
	}
	return s
}

func renderRel(n parsley.Node, base int) string {
	if n == nil {
		return "<nil>"
	}
	s := fmt.Sprintf("%s@%d..%d", n.Token(), int(n.Pos())-base, int(n.ReaderPos())-base)
	switch v := n.(type) {
	case ast.NodeList:
		parts := []string{}
		for _, c := range v {
			parts = append(parts, renderRel(c, base))
		}
		return "{" + strings.Join(parts, "|") + "}"
	case parsley.NonTerminalNode:
		parts := []string{}
		for _, c := range v.Children() {
			parts = append(parts, renderRel(c, base))
		}
		return s + "[" + strings.Join(parts, " ") + "]"
	case parsley.LiteralNode:
		return s + fmt.Sprintf("=%#v", v.Value())
	}
	return s
}

func countNodes(n parsley.Node) int {
	c := 1
	if nt, ok := n.(parsley.NonTerminalNode); ok {
		for _, k := range nt.Children() {
			c += countNodes(k)
		}
	}
	return c
}

var c12Workloads = func() map[string]parsley.Parser {
	var lr parser.Func
	lr = combinator.Memoize(combinator.Any(combinator.SeqOf(&lr, text.LeftTrim(terminal.Rune('b'), text.WsSpaces)).Bind(interpreter.Nil()), terminal.Rune('a')))
	var h parser.Func
	h = combinator.Memoize(combinator.Any(combinator.SeqOf(combinator.Optional(terminal.Rune('x')), &h, terminal.Rune('b')).Bind(interpreter.Nil()), terminal.Rune('a')))
	// the alternatives are memoized one by one: several memoized parsers are tried at one position
	m := func(p parsley.Parser) parsley.Parser { return combinator.Memoize(p) }
	lit := combinator.Choice(m(terminal.Float("f")), m(terminal.Integer("i")), m(terminal.String("s", true)), m(terminal.Char("c")),
		m(terminal.TimeDuration("d")), m(terminal.Bool("b", "true", "false")), m(terminal.Nil("n", "nil")), m(terminal.Word("w", "foo", 1)), m(terminal.Op("==")),
		m(terminal.Regexp("r", "ID", "id", "[a-z]+", 0)), m(terminal.Rune('(')))
	return map[string]parsley.Parser{
		"arith":  arithParser(),
		"json":   jsonP,
		"lr":     combinator.Sentence(&lr),
		"hidden": combinator.Sentence(&h),
		"lits":   combinator.Sentence(combinator.Many(text.Trim(lit)).Bind(interpreter.Nil())),
		"trims": combinator.Sentence(combinator.SeqOf(
			text.RightTrim(terminal.Word("w", "let", 1), text.WsSpaces),
			text.LeftTrim(terminal.Regexp("r", "ID", "id", "[a-z]+", 0), text.WsNone),
			text.Trim(terminal.Op("==")),
			text.RightTrim(text.LeftTrim(terminal.Integer("i"), text.WsSpaces), text.WsSpacesForceNl),
		).Bind(interpreter.Nil())),
	}
}()

var c12Names = []string{"arith", "json", "lr", "hidden", "lits", "trims", "grammar", "tokens", "literal"}

func genC12(t *rapid.T) interface{} {
	c := &C12Case{Workload: rapid.SampledFrom(c12Names).Draw(t, "wl"), Pre: [][]byte{}}
	switch c.Workload {
	case "arith":
		c.In = genExpr(t, rapid.IntRange(0, 4).Draw(t, "d"))
	case "json":
		c.In = genJSON(t, rapid.IntRange(0, 3).Draw(t, "d"))
	case "lr":
		c.In = "a" + strings.Repeat(rapid.SampledFrom([]string{"b", " b", "\nb", "c"}).Draw(t, "u"), rapid.IntRange(0, 6).Draw(t, "n"))
	case "hidden":
		c.In = rapid.SampledFrom([]string{"a", "xa", "xxa", "b"}).Draw(t, "h") + strings.Repeat("b", rapid.IntRange(0, 6).Draw(t, "n"))
	case "lits":
		n := rapid.IntRange(0, 5).Draw(t, "n")
		for i := 0; i < n; i++ {
			c.In += rapid.SampledFrom([]string{"1", "2.5", `"s\n"`, "`raw`", "'c'", "1h2m", "true", "nil", "foo", "==", "abc", "\n", " ", "0x1F", "'", "\"", "9223372036854775807", "(", "9223372036854775808", "1e999"}).Draw(t, "frag") + rapid.SampledFrom([]string{" ", "", "\n"}).Draw(t, "sep")
		}
	case "trims":
		c.In = "let" + rapid.SampledFrom([]string{" ", "", "\t", "\n"}).Draw(t, "w1") + "abc" + rapid.SampledFrom([]string{"", " ", "\n"}).Draw(t, "w2") + "==" +
			rapid.SampledFrom([]string{"", " ", "\n "}).Draw(t, "w3") + "42" + rapid.SampledFrom([]string{"\n", "", " \n", "  "}).Draw(t, "w4")
	case "grammar":
		o := GenOpts{MaxNT: 3, MaxDepth: 3, Alphabet: "ab", NonMono: true, MaxInput: 6, Skeleton: true}
		c.G = GenGrammar(t, o)
		c.In = GenInput(t, c.G, o)
	case "tokens":
		c.Toks = genC10(t).(*C10Case)
		c.In = c.Toks.source()
	case "literal":
		c.Lit = genC08(t).(*C08Case)
		if len(c.Lit.Data) > 12 {
			c.Lit.Data = c.Lit.Data[:12]
		}
		c.In = string(c.Lit.Data)
	}
	if rapid.IntRange(0, 3).Draw(t, "mut") == 0 && len(c.In) > 0 && c.Lit == nil && c.Toks == nil {
		i := rapid.IntRange(0, len(c.In)-1).Draw(t, "mi")
		c.In = c.In[:i] + c.In[i+1:]
	}
	k := rapid.IntRange(1, 6).Draw(t, "npre")
	for i := 0; i < k; i++ {
		c.Pre = append(c.Pre, genContent(t, "p", 6))
	}
	c.ReaderFirst = rapid.IntRange(0, 2).Draw(t, "readerFirst") == 0
	c.Touch = rapid.Bool().Draw(t, "touch")
	c.Twice = rapid.IntRange(0, 5).Draw(t, "twice") == 0
	c.Reuse = rapid.IntRange(0, 3).Draw(t, "reuse") == 0
	c.ReuseCtx = rapid.Bool().Draw(t, "reuseCtx")
	c.GiantPre = rapid.IntRange(0, 9).Draw(t, "giant") == 4
	if rapid.IntRange(0, 7).Draw(t, "huge") == 3 {
		c.HugePre = rapid.SampledFrom([]int{65530, 65535, 65536, 70000, 131072, 200000}).Draw(t, "hugeLen")
	}
	k = rapid.IntRange(0, 5).Draw(t, "npost")
	for i := 0; i < k; i++ {
		c.Post = append(c.Post, genContent(t, "q", 6))
	}
	return c
}

// giantFile is a file that only knows its length (2 GiB of content nobody looks at).
type giantFile struct{ size, offset int }

func (g *giantFile) Position(int) parsley.Position { return parsley.NilPosition }
func (g *giantFile) Pos(i int) parsley.Pos         { return parsley.Pos(g.offset + i) }
func (g *giantFile) Len() int                      { return g.size }
func (g *giantFile) SetOffset(o int)               { g.offset = o }

type c12Out struct {
	Tree, ParseErr, Eval string
	Calls, Nodes         int
	Base                 int
}

func runC12(c *C12Case, pre, post [][]byte, readerFirst, touch, reuse, reuseCtx, giant bool) (o c12Out, err error) {
	defer func() {
		if r := recover(); r != nil {
			if _, ok := r.(budgetExceeded); ok {
				panic(r)
			}
			err = fmt.Errorf("panic with preceding files %q: %v", pre, r)
		}
	}()
	var fl []parsley.File
	if giant {
		fl = append(fl, &giantFile{size: 1 << 31})
	}
	preTotal := 0
	for i, p := range pre {
		fl = append(fl, text.NewFile(fmt.Sprintf("pre%d", i), p))
		preTotal += len(normCRLF(p)) + 1
	}
	content := []byte(c.In)
	if c.Lit != nil {
		content = c.Lit.Data
	}
	f := newFileOwned("main", content)
	var early *text.Reader
	var shared *parsley.Context
	if readerFirst || reuse {
		early = text.NewReader(f) // e.g. examples/json benchmarks create the reader first
	}
	if reuse && c.Workload != "literal" {
		// file and reader have a history: a complete parse and evaluation with the file alone in
		// another set
		fs0 := parsley.NewFileSet(f)
		var p0 parsley.Parser
		switch c.Workload {
		case "tokens":
			parsers := make([]parsley.Parser, len(c.Toks.Toks))
			for i, ts := range c.Toks.Toks {
				parsers[i] = tokParser(ts)
			}
			p0 = combinator.Sentence(combinator.SeqOf(parsers...).Bind(interpreter.Nil()))
		case "grammar":
			pr := NewProbe()
			pr.Bound = false
			p0 = combinator.Sentence(Build(c.G, BuildOpts{Probe: pr, Interp: concatInterp(true)}).NT[0])
		default:
			p0 = c12Workloads[c.Workload]
		}
		// (the same context is only used again when no position of the second parse can coincide
		// with one of the first: its result cache is keyed by position)
		if reuseCtx && !giant && preTotal >= len(content)+2 {
			shared = parsley.NewContext(parsley.NewFileSet(), early)
			_, _ = parsley.Evaluate(shared, p0)
		} else {
			_, _ = parsley.Evaluate(parsley.NewContext(fs0, early), p0)
		}
	}
	newReader := func() *text.Reader {
		if early != nil {
			return early
		}
		return text.NewReader(f)
	}
	fl = append(fl, f)
	for i, p := range post {
		fl = append(fl, text.NewFile(fmt.Sprintf("post%d", i), p))
	}
	// the slice handed to NewFileSet has spare capacity and is reused by the caller afterwards: the
	// file set must not depend on it
	if reuse && len(pre) > 0 {
		// ... and the file object had another place before: behind a file of another length in a set
		// that is thrown away
		_ = parsley.NewFileSet(text.NewFile("elsewhere", bytes.Repeat([]byte("e"), 37+len(content))), f)
	}
	fl = append(make([]parsley.File, 0, len(fl)+3), fl...)
	fs := parsley.NewFileSet()
	if shared != nil {
		fs = shared.FileSet()
		for i, g := range fl {
			if i > 0 && touch {
				_ = fs.Position(fl[0].Pos(0)).String()
			}
			fs.AddFile(g)
		}
	} else if touch && len(fl) > 1 {
		// the set grows file by file, and positions of the files already in it are looked up in between
		for i, g := range fl {
			if i > 0 {
				_ = fs.Position(fl[0].Pos(0)).String()
				_ = fs.Position(fl[i-1].Pos(fl[i-1].Len())).String()
			}
			fs.AddFile(g)
		}
	} else {
		fs = parsley.NewFileSet(fl...)
	}
	if c.Twice && len(fl) > 1 && !giant {
		// the file is registered a second time with the same set (a caller that adds every file of a
		// directory and then the main file again): it gets a second place, behind everything else
		fs.AddFile(f)
	}
	var others []parsley.Pos
	for _, g := range fl {
		if g != parsley.File(f) {
			others = append(others, g.Pos(0), g.Pos(g.Len()))
		}
	}
	if len(fl) > 1 {
		// (not for the file alone: the baseline must be what it is)
		decoy := text.NewFile("decoy", []byte("decoy\ncontent\n"))
		for i := range fl {
			fl[i] = decoy
		}
		_ = append(fl, decoy)
	}
	o.Base = int(f.Pos(0))
	// lookups of the other files' positions on the shared set, interleaved with the renderings of
	// this file's positions (earlier file first, then rotating)
	tcount := 0
	touchOther := func() {
		if !touch || len(others) == 0 {
			return
		}
		_ = fs.Position(others[tcount%len(others)]).String()
		tcount++
	}
	touchOther()
	var p parsley.Parser
	var probe *Probe
	if c.Workload == "literal" {
		// every literal parser applied at every offset of the file, no combinators around it
		var sb strings.Builder
		for _, e := range c08Parsers(c.Lit) {
			for off := 0; off <= f.Len(); off++ {
				ctx := parsley.NewContext(fs, newReader())
				n, _, perr := e.p.Parse(ctx, data.EmptyIntMap, f.Pos(off))
				fmt.Fprintf(&sb, "%s@%d: %s", e.name, off, renderRel(n, o.Base))
				if perr != nil {
					touchOther()
					fmt.Fprintf(&sb, " error %q at %d rendered %s", perr.Error(), int(perr.Pos())-o.Base, fs.Position(perr.Pos()))
				}
				sb.WriteString("\n")
			}
		}
		o.Tree = sb.String()
		o.Nodes = 3
		return o, nil
	}
	if c.Workload == "tokens" {
		parsers := make([]parsley.Parser, len(c.Toks.Toks))
		for i, ts := range c.Toks.Toks {
			parsers[i] = tokParser(ts)
		}
		p = combinator.Sentence(combinator.SeqOf(parsers...).Bind(interpreter.Nil()))
	} else if c.Workload == "grammar" {
		probe = NewProbe()
		probe.Bound = false
		p = combinator.Sentence(Build(c.G, BuildOpts{Probe: probe, Interp: concatInterp(true)}).NT[0])
	} else {
		p = c12Workloads[c.Workload]
	}
	ctx := parsley.NewContext(fs, newReader())
	if shared != nil {
		ctx = shared
	}
	touchOther()
	node, perr := parsley.Parse(ctx, p)
	o.Tree = renderRel(node, o.Base)
	o.ParseErr = fmt.Sprint(perr)
	if node != nil {
		// the rendered location of the root must be the same wherever the file sits
		touchOther()
		o.ParseErr += " root at " + fs.Position(node.Pos()).String()
		touchOther()
		o.ParseErr += " .. " + fs.Position(node.ReaderPos()).String()
	}
	o.Calls = ctx.CallCount()
	if node != nil {
		o.Nodes = countNodes(node)
	}
	if c.Workload == "grammar" {
		// raw results of the start rule (all alternatives) must shift as well
		ctx3 := parsley.NewContext(fs, newReader())
		b := Build(c.G, BuildOpts{Probe: probe})
		n3, _, _ := b.NT[0].Parse(ctx3, data.EmptyIntMap, f.Pos(0))
		o.Tree += " all=" + RenderResult(n3, o.Base)
	}
	ctx2 := parsley.NewContext(fs, newReader())
	touchOther()
	v, eerr := parsley.Evaluate(ctx2, p)
	o.Eval = fmt.Sprintf("%#v / %v", v, eerr)
	return o, nil
}

func checkC12(ci interface{}, st *Stats) error {
	c := ci.(*C12Case)
	if c.Workload == "grammar" {
		if c.G == nil {
			return Discard{"no grammar"}
		}
		c.G.number()
	} else if c.Workload == "tokens" {
		if c.Toks == nil || len(c.Toks.Toks) == 0 || len(c.Toks.Gaps) != len(c.Toks.Toks)+1 {
			return Discard{"no token sequence"}
		}
		c.In = c.Toks.source()
	} else if c.Workload == "literal" {
		if c.Lit == nil || c.Lit.True == "" || c.Lit.False == "" || c.Lit.Nil == "" || c.Lit.Word == "" || c.Lit.Op == "" {
			return Discard{"no literal case"}
		}
	} else if c12Workloads[c.Workload] == nil {
		return Discard{"unknown workload"}
	}
	alone, err := runC12(c, nil, nil, false, false, false, false, false)
	if err != nil {
		return err
	}
	pre := c.Pre
	if c.HugePre > 0 {
		pre = append([][]byte{bytes.Repeat([]byte("x"), c.HugePre)}, pre...)
		st.Class("preceded by more than 64 KiB")
	}
	placed, err := runC12(c, pre, c.Post, c.ReaderFirst, c.Touch, c.Reuse, c.ReuseCtx, c.GiantPre)
	if err != nil {
		return err
	}
	wantBase := 1
	if c.GiantPre {
		wantBase += 1<<31 + 1
	}
	for _, p := range pre {
		wantBase += len(normCRLF(p)) + 1
	}
	if c.Twice && !c.GiantPre && len(pre)+len(c.Post) > 0 {
		// its second place: behind its first one and behind the following files
		content := []byte(c.In)
		if c.Lit != nil {
			content = c.Lit.Data
		}
		wantBase += len(normCRLF(content)) + 1
		for _, p := range c.Post {
			wantBase += len(normCRLF(p)) + 1
		}
	}
	if alone.Base != 1 || placed.Base != wantBase {
		return fmt.Errorf("base offsets %d / %d, want 1 / %d", alone.Base, placed.Base, wantBase)
	}
	if alone.Tree != placed.Tree {
		return fmt.Errorf("trees differ (positions relative to the file's base):\n alone  %s\n placed %s", alone.Tree, placed.Tree)
	}
	if alone.ParseErr != placed.ParseErr {
		return fmt.Errorf("error messages differ:\n alone  %s\n placed %s", alone.ParseErr, placed.ParseErr)
	}
	if alone.Eval != placed.Eval {
		return fmt.Errorf("evaluation differs:\n alone  %s\n placed %s", alone.Eval, placed.Eval)
	}
	if alone.Calls != placed.Calls {
		st.Class("call count differs with placement (recorded, not a violation)")
	}
	st.Class("workload " + c.Workload)
	if c.Twice && !c.GiantPre {
		st.Class("the parsed file was added to its set twice")
	}
	if c.Touch {
		st.Class("positions of the other files looked up in between")
	}
	if c.Reuse {
		st.Class("file and reader already used alone before placement")
	}
	if c.Reuse && c.ReuseCtx && !c.GiantPre {
		st.Class("... where the same context may serve both parses")
	}
	if c.GiantPre {
		st.Class("preceded by a file of 2^31 bytes")
	}
	if c.ReaderFirst {
		st.Class("reader created before the file was placed")
	}
	if strings.HasPrefix(alone.ParseErr, "<nil>") {
		st.Class("parsed")
	} else {
		st.Class("rejected")
	}
	if placed.Base > 1 && (alone.Nodes >= 3 || strings.Contains(alone.ParseErr, " at main:")) {
		st.NonTrivial()
	}
	if bytes.Contains([]byte(c.In), []byte("\n")) {
		st.Class("multi-line input")
	}
	return nil
}

func init() {
	register(&Property{ID: "C12", NewCase: func() interface{} { return &C12Case{} }, Gen: genC12, Check: checkC12})
}

func TestC12(t *testing.T) { RunProperty(t, "C12") }
