package harness

import (
	"fmt"

	"pgregory.net/rapid"
)

// GenOpts steers the grammar generator (DESIGN.md 3.1).
type GenOpts struct {
	MaxNT     int
	MaxDepth  int
	Alphabet  string
	NonMono   bool // Choice / Many / SepBy / SeqTry / SeqFirstOrAll
	ExtraMemo int  // 0: never; n: one node in n gets an extra Memoize wrapper
	Names     bool
	MaxInput  int
	NoRefs    bool
	Trims     bool
	// Unstratified: references to any rule anywhere, also where a combinator asks "does the next
	// element fail here?": such a grammar has no least-fixpoint meaning, so only checks that need
	// none use it
	Unstratified bool
	// SingleSafe: combinator.Single around operands that never return a result together with an
	// error (sequences, repetitions, alternatives, terminals - not Optional, not a reference): there
	// Single changes the shape of a tree but never which end offsets are reached
	SingleSafe bool
	RefTrims   bool  // trimming the reference semantics can follow: restricted operands (see genRefTrim)
	Skeleton   bool  // recursion skeleton first (direct / hidden / indirect ring)
	LRFree     bool  // repair left recursion away (C03)
	Share      bool  // bias towards several references to one rule at one position (cache hits)
	SkWeights  []int // when set, the skeleton kind is sampled from this list
	Suppress   bool  // combinator.SuppressError wrappers
	MemoLeaves bool  // Memoize wrappers also around terminals and references ("any sub-parser")
	Single     bool  // combinator.Single wrappers (C07 only: it changes tree shapes)
	SeqOpts    bool  // .HandleResult(ReturnSingle()) and .Token(...) on sequence-like nodes
	RuleNames  bool  // some rules are Memoize(body).Name(...): the name wrapper sits outside the memoization
	NearMiss   bool  // prefer sentences of the grammar with one byte changed / inserted / deleted / appended
}

// fixRepetitions makes every repetition operand consume input (C02's precondition): a
// nullable operand x becomes SeqOf(term, x). Repair, not rejection, so shrinking works.
func fixRepetitions(g *Grammar, t *rapid.T, alphabet string) {
	for iter := 0; iter < 20; iter++ {
		nt := nullableRules(g)
		fixed := false
		var walk func(e *Expr)
		walk = func(e *Expr) {
			for _, k := range e.Kids {
				walk(k)
			}
			switch e.K {
			case KMany, KMany1, KSepBy, KSepBy1:
				for i, k := range e.Kids {
					if e.K != KMany && e.K != KMany1 && i == 1 && !exprNullable(nt, e.Kids[0]) {
						// SepBy(value, sep): a nullable separator is fine while the value consumes
						continue
					}
					if exprNullable(nt, k) {
						ch := alphabet[rapid.IntRange(0, len(alphabet)-1).Draw(t, "fixch")]
						e.Kids[i] = &Expr{K: KSeqOf, Kids: []*Expr{tm(ch), k}}
						fixed = true
					}
				}
			}
		}
		for _, r := range g.Rules {
			walk(r)
		}
		if !fixed {
			return
		}
	}
	panic("could not repair nullable repetitions")
}

// fixLeftRecursion removes left recursion by prefixing a terminal to offending left-corner
// references (used for the left-recursion-free domain of C03).
func fixLeftRecursion(g *Grammar, t *rapid.T, alphabet string) {
	for iter := 0; iter < 50; iter++ {
		lr := leftRecursiveRules(g)
		bad := -1
		for i, b := range lr {
			if b {
				bad = i
				break
			}
		}
		if bad < 0 {
			return
		}
		nt := nullableRules(g)
		// guard every left-corner reference of the offending rule that leads back to a
		// left-recursive rule
		var walk func(e *Expr, left bool) *Expr
		walk = func(e *Expr, left bool) *Expr {
			if !left {
				return e
			}
			switch e.K {
			case KRef:
				if lr[e.NT] {
					ch := alphabet[rapid.IntRange(0, len(alphabet)-1).Draw(t, "lrfix")]
					return &Expr{K: KSeqOf, Kids: []*Expr{tm(ch), e}}
				}
			case KAny, KChoice, KOpt, KMany, KMany1, KLTrim, KRTrim, KSuppress, KSingle:
				for i, k := range e.Kids {
					e.Kids[i] = walk(k, true)
				}
			case KSepBy, KSepBy1:
				e.Kids[0] = walk(e.Kids[0], true)
				if exprNullable(nt, e.Kids[0]) {
					e.Kids[1] = walk(e.Kids[1], true)
				}
			case KSeqOf, KSeqTry, KSeqFirstOrAll:
				for i, k := range e.Kids {
					e.Kids[i] = walk(k, true)
					if !exprNullable(nt, k) {
						break
					}
				}
			}
			return e
		}
		g.Rules[bad] = walk(g.Rules[bad], true)
	}
	panic("could not repair left recursion")
}

// GenGrammar draws a stratified grammar.
func GenGrammar(t *rapid.T, o GenOpts) *Grammar {
	n := rapid.IntRange(1, o.MaxNT).Draw(t, "nNT")
	g := &Grammar{Rules: make([]*Expr, n), Layer: make([]int, n)}
	layer := 0
	for i := 0; i < n; i++ {
		if i > 0 && rapid.IntRange(0, 2).Draw(t, "newLayer") == 0 {
			layer++
		}
		g.Layer[i] = layer
	}
	// the recursion skeleton (and with it the layer assignment: a ring lives in one layer)
	// is drawn before any body
	sk := 0
	if o.Skeleton {
		if o.SkWeights != nil {
			sk = o.SkWeights[rapid.IntRange(0, len(o.SkWeights)-1).Draw(t, "skeleton")]
		} else {
			sk = rapid.IntRange(0, 7).Draw(t, "skeleton") // 0 none 1 direct 2 hidden 3 ring 4 hidden ring 5 right/centre 6 precedence tower 7 ring through optional references
		}
		if sk == 6 {
			return genTower(t, o)
		}
		if (sk == 3 || sk == 4 || sk == 7) && n >= 2 {
			for i := range g.Layer {
				g.Layer[i] = 0
			}
		}
	}
	term := func() *Expr {
		return tm(o.Alphabet[rapid.IntRange(0, len(o.Alphabet)-1).Draw(t, "ch")])
	}
	var gen func(nt int, depth int, neg bool) *Expr
	gen = func(nt int, depth int, neg bool) *Expr {
		var refs []int
		if !o.NoRefs {
			for j := 0; j < n; j++ {
				if o.Unstratified || g.Layer[j] < g.Layer[nt] || (!neg && g.Layer[j] == g.Layer[nt]) {
					refs = append(refs, j)
				}
			}
		}
		kinds := []Kind{KTerm, KTerm}
		if len(refs) > 0 {
			kinds = append(kinds, KRef, KRef, KRef, KRef)
			if o.Share {
				kinds = append(kinds, KRef, KRef)
			}
		}
		if depth < o.MaxDepth {
			kinds = append(kinds, KSeqOf, KSeqOf, KAny, KAny, KAny, KOpt, KOpt, KEmpty)
			if o.NonMono {
				kinds = append(kinds, KChoice, KMany, KMany1, KSepBy, KSepBy1, KSeqTry, KSeqFirstOrAll)
			}
			if o.Trims {
				kinds = append(kinds, KLTrim, KRTrim, KRTrim)
			}
			if o.RefTrims {
				kinds = append(kinds, kRefTrim, kRefTrim, kRefTrim)
			}
			if o.Suppress {
				kinds = append(kinds, KSuppress)
			}
			if o.Single {
				kinds = append(kinds, KSingle, KSingle)
			}
			if o.SingleSafe {
				kinds = append(kinds, kSingleSafe)
			}
		}
		k := kinds[rapid.IntRange(0, len(kinds)-1).Draw(t, "kind")]
		if k == kSingleSafe {
			for try := 0; ; try++ {
				op := gen(nt, depth+1, neg)
				switch op.K {
				case KSeqOf, KSeqTry, KSeqFirstOrAll, KMany, KMany1, KSepBy, KSepBy1, KAny, KChoice, KTerm:
					op.Memo = false
					return &Expr{K: KSingle, Kids: []*Expr{op}}
				}
				if try > 4 {
					return &Expr{K: KSingle, Kids: []*Expr{{K: KSeqOf, Kids: []*Expr{term()}}}}
				}
			}
		}
		if k == kRefTrim {
			return genRefTrim(t, func() *Expr { return gen(nt, depth+2, neg) }, term)
		}
		e := &Expr{K: k}
		switch k {
		case KTerm:
			e = term()
			if o.MemoLeaves && rapid.IntRange(0, 5).Draw(t, "memoleaf") == 0 {
				e.Memo = true
			}
			return e
		case KEmpty:
		case KRef:
			e.NT = refs[rapid.IntRange(0, len(refs)-1).Draw(t, "ref")]
			if o.MemoLeaves && rapid.IntRange(0, 5).Draw(t, "memoleaf") == 0 {
				e.Memo = true
			}
			return e
		case KSeqOf:
			m := rapid.IntRange(1, 3).Draw(t, "seqlen")
			for i := 0; i < m; i++ {
				e.Kids = append(e.Kids, gen(nt, depth+1, neg))
			}
		case KSeqTry, KSeqFirstOrAll:
			m := rapid.IntRange(1, 3).Draw(t, "seqlen")
			for i := 0; i < m; i++ {
				// the longest-path rule asks "does element i fail here?": SeqTry for every
				// element after the first, SeqFirstOrAll for the second one
				ng := neg || (i >= 1 && (k == KSeqTry || i == 1))
				e.Kids = append(e.Kids, gen(nt, depth+1, ng))
			}
		case KAny:
			m := rapid.IntRange(1, 4).Draw(t, "alts")
			for i := 0; i < m; i++ {
				e.Kids = append(e.Kids, gen(nt, depth+1, neg))
			}
		case KChoice:
			m := rapid.IntRange(1, 3).Draw(t, "alts")
			for i := 0; i < m; i++ {
				e.Kids = append(e.Kids, gen(nt, depth+1, neg || i < m-1))
			}
		case KOpt, KSuppress, KSingle:
			e.Kids = []*Expr{gen(nt, depth+1, neg)}
		case KLTrim, KRTrim:
			e.Mode = rapid.IntRange(0, 3).Draw(t, "wsmode")
			e.Kids = []*Expr{gen(nt, depth+1, neg)}
		case KMany, KMany1:
			e.Kids = []*Expr{gen(nt, depth+1, true)}
		case KSepBy, KSepBy1:
			e.Kids = []*Expr{gen(nt, depth+1, true), gen(nt, depth+1, true)}
		}
		if o.ExtraMemo > 0 && rapid.IntRange(0, o.ExtraMemo-1).Draw(t, "memo") == 0 {
			e.Memo = true
		}
		if o.SeqOpts && isSeqLike(k) {
			if rapid.IntRange(0, 5).Draw(t, "returnsingle") == 2 {
				e.RS = true
			}
			if rapid.IntRange(0, 7).Draw(t, "token") == 3 {
				e.Tok = rapid.SampledFrom([]string{"T1", "T2", "SEQ"}).Draw(t, "tokname")
			}
		}
		if o.Names && (k == KAny || k == KChoice || k == KSeqOf) && rapid.Bool().Draw(t, "named") {
			e.Name = fmt.Sprintf("n%d", rapid.IntRange(0, 9).Draw(t, "nameid"))
		}
		return e
	}
	for i := 0; i < n; i++ {
		g.Rules[i] = gen(i, 0, false)
	}
	if o.Skeleton && sk != 0 {
		prefix := func(i int) *Expr {
			// references that may stand in a positive position of rule i
			var ok []int
			for j := 0; j < n; j++ {
				if g.Layer[j] <= g.Layer[i] {
					ok = append(ok, j)
				}
			}
			switch rapid.IntRange(0, 6).Draw(t, "prefix") {
			case 5: // an optional nonterminal: its curtailment must reach the enclosing rule
				return &Expr{K: KOpt, Kids: []*Expr{rf(ok[rapid.IntRange(0, len(ok)-1).Draw(t, "prefref")])}}
			case 6:
				return &Expr{K: KAny, Kids: []*Expr{rf(ok[rapid.IntRange(0, len(ok)-1).Draw(t, "prefref")]), {K: KEmpty}}}
			case 0:
				return &Expr{K: KOpt, Kids: []*Expr{term()}}
			case 1:
				return &Expr{K: KEmpty}
			case 2:
				return &Expr{K: KMany, Kids: []*Expr{term()}}
			case 3:
				return &Expr{K: KOpt, Kids: []*Expr{{K: KSeqOf, Kids: []*Expr{term(), term()}}}}
			default:
				return &Expr{K: KAny, Kids: []*Expr{term(), {K: KEmpty}}}
			}
		}
		for i := 0; i < n; i++ {
			var head []*Expr
			tail := true
			switch sk {
			case 1: // direct: N -> N rest
				head = []*Expr{rf(i)}
				tail = rapid.IntRange(0, 5).Draw(t, "unit") != 0
			case 2: // hidden: N -> nullable-prefix N rest
				head = []*Expr{prefix(i), rf(i)}
				tail = rapid.IntRange(0, 5).Draw(t, "unit") != 0
			case 3: // indirect ring through all rules
				if n >= 2 {
					head = []*Expr{rf((i + 1) % n)}
					tail = rapid.IntRange(0, 3).Draw(t, "unit") != 0
					if rapid.IntRange(0, 2).Draw(t, "linkOrTerm") == 0 {
						// the link is one of two alternatives: where the reference is curtailed the terminal
						// still fails there, so the element returns an error together with a curtailed set
						head = []*Expr{{K: KAny, Kids: []*Expr{rf((i + 1) % n), term()}}}
						tail = true
					}
				}
			case 4: // indirect ring with hidden links
				if n >= 2 {
					head = []*Expr{prefix(i), rf((i + 1) % n)}
					tail = rapid.IntRange(0, 3).Draw(t, "unit") != 0
				}
			case 7: // ring whose links are plain or optional references: A -> A x | B ; B -> A? b
				if n >= 2 {
					if rapid.Bool().Draw(t, "optlink") {
						head = []*Expr{{K: KOpt, Kids: []*Expr{rf((i + 1) % n)}}}
					} else {
						head = []*Expr{rf((i + 1) % n)}
						tail = rapid.IntRange(0, 2).Draw(t, "unit") != 0
					}
					if rapid.Bool().Draw(t, "selfalt") {
						// plus a directly left-recursive alternative on the same rule
						g.Rules[i] = &Expr{K: KAny, Kids: []*Expr{{K: KSeqOf, Kids: []*Expr{rf(i), term()}}, g.Rules[i]}}
					}
				}
			case 5: // right / centre recursion: N -> rest N | rest N rest
				head = []*Expr{term(), rf(i)}
				tail = rapid.Bool().Draw(t, "centre")
			}
			if head == nil || (sk != 3 && sk != 4 && sk != 7 && rapid.IntRange(0, 2).Draw(t, "skip") == 0) {
				continue
			}
			kids := head
			if tail {
				kids = append(kids, gen(i, 1, false))
			}
			seq := &Expr{K: KSeqOf, Kids: kids}
			if o.Names && rapid.Bool().Draw(t, "skname") {
				seq.Name = fmt.Sprintf("n%d", rapid.IntRange(0, 9).Draw(t, "sknameid"))
			}
			g.Rules[i] = &Expr{K: KAny, Kids: []*Expr{seq, g.Rules[i]}}
			if rapid.Bool().Draw(t, "swap") {
				k := g.Rules[i].Kids
				k[0], k[1] = k[1], k[0]
			}
		}
	}
	if o.RuleNames {
		g.RuleNames = make([]string, n)
		for i := range g.RuleNames {
			// only where the body never returns a result together with an error (Optional does, and a
			// name wrapper then drops the result: outside the listed properties)
			k := g.Rules[i].K
			if (k == KAny || k == KChoice || k == KTerm || isSeqLike(k)) && rapid.IntRange(0, 2).Draw(t, "rulename") == 1 {
				g.RuleNames[i] = fmt.Sprintf("rule%d", i)
			}
		}
	}
	if o.SingleSafe && o.RefTrims && singleSeesRTrim(g) {
		// Single would return the child of a right-trimmed one-child sequence, which ends before
		// the whitespace: wrapped in a sequence of its own, Single unwraps that one again
		for _, e := range g.exprs() {
			if e.K == KSingle {
				e.Kids = []*Expr{{K: KSeqOf, Kids: e.Kids}}
			}
		}
	}
	fixRepetitions(g, t, o.Alphabet)
	if o.LRFree {
		fixLeftRecursion(g, t, o.Alphabet)
		fixRepetitions(g, t, o.Alphabet)
	}
	g.number()
	return g
}

// GenInput draws an input: uniform over the alphabet, a sentence sampled from the grammar
// by a random derivation, or a one-byte mutation of such a sentence.
// kRefTrim is a generator-only pseudo kind (never stored in an Expr).
const kRefTrim Kind = 200
const kSingleSafe Kind = 201

// genRefTrim draws a trimmed expression whose meaning is the documented one without any doubt:
// LeftTrim/RightTrim around a terminal (any mode), around Empty, or around a sequence / a set of
// alternatives of fresh nodes (RightTrim then only in the never-failing mode, as a parser with
// several results is judged by its last result only). The operand never is an Optional (which
// returns its error together with the EMPTY node: the trimming parsers then leave the whitespace
// alone) and never passes a memoized node through (known finding KF-1: RightTrim moves its
// operand's end in place).
func genRefTrim(t *rapid.T, sub func() *Expr, term func() *Expr) *Expr {
	mode := func() int { return rapid.SampledFrom([]int{0, 1, 1, 2, 2, 2, 3}).Draw(t, "wsmode") }
	fresh := func() (e *Expr, single bool) {
		switch rapid.IntRange(0, 5).Draw(t, "trimOperand") {
		case 0:
			return &Expr{K: KEmpty}, true
		case 1: // a sequence node of its own around anything
			return &Expr{K: KSeqOf, Kids: []*Expr{sub()}}, false
		case 2:
			return &Expr{K: KSeqOf, Kids: []*Expr{term(), sub()}}, false
		case 3: // the shape of an optional separator
			return &Expr{K: KChoice, Kids: []*Expr{term(), {K: KEmpty}}}, true
		case 4:
			return &Expr{K: KAny, Kids: []*Expr{term(), {K: KSeqOf, Kids: []*Expr{term(), term()}}}}, false
		}
		return term(), true
	}
	op, single := fresh()
	switch rapid.IntRange(0, 4).Draw(t, "trimSide") {
	case 4:
		// the one shape with an Optional inside that is beyond doubt: LeftTrim in the mode no run
		// violates (the whitespace goes, then the operand matches or matches nothing)
		return &Expr{K: KLTrim, Mode: 2, Kids: []*Expr{{K: KOpt, Kids: []*Expr{term()}}}}
	case 0:
		return &Expr{K: KLTrim, Mode: mode(), Kids: []*Expr{op}}
	case 1, 2:
		m := 2
		if single {
			m = mode()
		}
		return &Expr{K: KRTrim, Mode: m, Kids: []*Expr{op}}
	}
	m := 2
	if single {
		m = mode()
	}
	return &Expr{K: KRTrim, Mode: m, Kids: []*Expr{{K: KLTrim, Mode: mode(), Kids: []*Expr{op}}}}
}

func GenInput(t *rapid.T, g *Grammar, o GenOpts) string {
	kind := rapid.IntRange(0, 3).Draw(t, "inkind")
	if o.NearMiss {
		kind = rapid.SampledFrom([]int{3, 3, 3, 3, 2, 1, 0}).Draw(t, "inkindNM")
	}
	var b []byte
	if kind == 0 || g == nil {
		n := rapid.IntRange(0, o.MaxInput).Draw(t, "inlen")
		b = make([]byte, n)
		for i := range b {
			b[i] = o.Alphabet[rapid.IntRange(0, len(o.Alphabet)-1).Draw(t, "inch")]
		}
		return string(b)
	}
	fuel := 24
	var derive func(e *Expr)
	derive = func(e *Expr) {
		if fuel <= 0 || len(b) > o.MaxInput {
			return
		}
		fuel--
		switch e.K {
		case KTerm:
			b = append(b, e.ch())
		case KEmpty:
		case KRef:
			derive(g.Rules[e.NT])
		case KAny, KChoice:
			derive(e.Kids[rapid.IntRange(0, len(e.Kids)-1).Draw(t, "alt")])
		case KOpt:
			if rapid.Bool().Draw(t, "opt") {
				derive(e.Kids[0])
			}
		case KSeqOf, KSeqTry, KSeqFirstOrAll:
			m := len(e.Kids)
			if e.K != KSeqOf && rapid.IntRange(0, 2).Draw(t, "short") == 0 {
				m = 1
			}
			for _, k := range e.Kids[:m] {
				derive(k)
			}
		case KMany, KMany1:
			reps := rapid.IntRange(0, 3).Draw(t, "reps")
			for i := 0; i < reps; i++ {
				derive(e.Kids[0])
			}
		case KSepBy, KSepBy1:
			reps := rapid.IntRange(0, 3).Draw(t, "reps")
			for i := 0; i < reps; i++ {
				if i > 0 {
					derive(e.Kids[1])
				}
				derive(e.Kids[0])
			}
		case KSuppress, KSingle:
			derive(e.Kids[0])
		case KLTrim:
			b = append(b, wsSample(t)...)
			derive(e.Kids[0])
		case KRTrim:
			derive(e.Kids[0])
			b = append(b, wsSample(t)...)
		}
	}
	derive(g.Rules[rapid.IntRange(0, len(g.Rules)-1).Draw(t, "startrule")])
	if kind == 3 && len(b) > 0 {
		i := rapid.IntRange(0, len(b)-1).Draw(t, "mutpos")
		switch rapid.IntRange(0, 3).Draw(t, "mutkind") {
		case 0:
			b[i] = o.Alphabet[rapid.IntRange(0, len(o.Alphabet)-1).Draw(t, "mutch")]
		case 1:
			b = append(b[:i], b[i+1:]...)
		case 3:
			b = append(b, o.Alphabet[rapid.IntRange(0, len(o.Alphabet)-1).Draw(t, "mutch")])
		default:
			b = append(b[:i], append([]byte{o.Alphabet[rapid.IntRange(0, len(o.Alphabet)-1).Draw(t, "mutch")]}, b[i:]...)...)
		}
	}
	if len(b) > o.MaxInput {
		b = b[:o.MaxInput]
	}
	return string(b)
}

func wsSample(t *rapid.T) string {
	return rapid.SampledFrom([]string{"", " ", "\n", " \n", "  "}).Draw(t, "ws")
}

// shareTransform makes cache hits likely: a rule S (new, lowest layer, or an existing lower
// rule) is referenced at the same position by several alternatives of another rule:
// N -> Any(SeqOf(S, x), SeqOf(S, y), Opt(S), body).
func shareTransform(t *rapid.T, g *Grammar, o GenOpts) {
	term := func() *Expr {
		return tm(o.Alphabet[rapid.IntRange(0, len(o.Alphabet)-1).Draw(t, "sch")])
	}
	small := func() *Expr {
		switch rapid.IntRange(0, 10).Draw(t, "small") {
		case 10: // two alternatives, one of them a non-terminal with a single child
			return ex(KAny, ex(KSeqOf, term()), ex(KSeqOf, term(), term()))
		case 7: // succeeds on a prefix and records the failure of the next element further right
			return ex(KSeqTry, term(), term(), term())
		case 8:
			return ex(KMany, ex(KSeqOf, term(), term()))
		case 9:
			return ex(KSepBy1, term(), ex(KSeqOf, term(), term()))
		case 0:
			return term()
		case 1:
			return ex(KSeqOf, term(), term())
		case 2:
			return ex(KAny, term(), ex(KSeqOf, term(), term()))
		case 3:
			return ex(KAny, term(), ex(KSeqOf, term(), term()), term())
		case 4:
			return ex(KMany1, term())
		case 5:
			return ex(KOpt, term())
		default:
			return ex(KAny, ex(KSeqOf, term(), term()), ex(KSeqOf, term(), term(), term()), ex(KOpt, term()))
		}
	}
	silent := o.Suppress && o.Single && rapid.IntRange(0, 2).Draw(t, "silentshare") == 0
	smallOrSilent := func() *Expr {
		if silent {
			// every alternative fails silently: the rule then returns neither a result nor an error,
			// whatever the context has recorded by the time it is asked
			k := KAny
			if rapid.Bool().Draw(t, "silentchoice") {
				k = KChoice
			}
			return ex(k, ex(KSuppress, term()), ex(KSuppress, ex(KSeqOf, term(), term())))
		}
		return small()
	}
	// the shared rule: a fresh rule in a new lowest layer
	for i := range g.Layer {
		g.Layer[i]++
	}
	g.Rules = append(g.Rules, smallOrSilent())
	g.Layer = append(g.Layer, 0)
	s := len(g.Rules) - 1
	host := rapid.IntRange(0, s-1).Draw(t, "host")
	var alts []*Expr
	m := rapid.IntRange(2, 3).Draw(t, "uses")
	use := func() *Expr {
		// with SuppressError in play one use in three is silenced: what the shared rule records in
		// the context there must not be lost for the other uses
		if o.Suppress && rapid.IntRange(0, 2).Draw(t, "silenced") == 0 {
			return ex(KSuppress, rf(s))
		}
		// and with Single in play one use in three goes through Single: what it does to the list it is
		// handed must stay its own business
		if o.Single && rapid.IntRange(0, 2).Draw(t, "singled") == 0 {
			return ex(KSingle, rf(s))
		}
		return rf(s)
	}
	if silent {
		// W = Single(Optional(S)) in front of an alternative that gives up after recording a failure
		// further right, and in front of one that may match: S is asked twice at one position, the
		// second time from the cache, with the context knowing more
		w := func() *Expr { return ex(KSingle, ex(KOpt, rf(s))) }
		a := term()
		alts = append(alts, ex(KSeqOf, w(), ex(KSeqTry, a, term()), term()), ex(KSeqOf, w(), tm(a.ch()), term()))
		m = 0
	}
	for i := 0; i < m; i++ {
		switch rapid.IntRange(0, 3).Draw(t, "use") {
		case 0:
			alts = append(alts, ex(KSeqOf, use(), term()))
		case 1:
			alts = append(alts, ex(KOpt, use()))
		case 2:
			alts = append(alts, ex(KSeqOf, use(), small()))
		default:
			alts = append(alts, use())
		}
	}
	alts = append(alts, g.Rules[host])
	kind := KAny
	if silent && rapid.Bool().Draw(t, "silenthostchoice") {
		kind = KChoice
	}
	g.Rules[host] = &Expr{K: kind, Kids: alts}
	g.number()
}

// trimShareTransform: a memoized rule S that records a further error while it succeeds is reached at
// one position along two paths of the host rule - once below a LeftTrim that skipped the whitespace
// in front of it, once directly, after a RightTrim of the previous token ate the same whitespace:
// N -> Any(SeqOf(x, LTrim(SeqOf(S)), ..), SeqOf(RTrim(x), S, ..), body).
func trimShareTransform(t *rapid.T, g *Grammar, o GenOpts) {
	term := func() *Expr {
		return tm(o.Alphabet[rapid.IntRange(0, len(o.Alphabet)-1).Draw(t, "tsch")])
	}
	var body *Expr
	switch rapid.IntRange(0, 3).Draw(t, "tsbody") {
	case 0:
		body = ex(KSeqTry, term(), term(), term())
	case 1:
		body = ex(KMany, ex(KSeqOf, term(), term()))
	case 2:
		body = ex(KSeqOf, ex(KOpt, term()), term())
	default:
		body = ex(KAny, term(), ex(KSeqOf, term(), term()))
	}
	for i := range g.Layer {
		g.Layer[i]++
	}
	g.Rules = append(g.Rules, body)
	g.Layer = append(g.Layer, 0)
	s := len(g.Rules) - 1
	x := term()
	mode := rapid.SampledFrom([]int{2, 2, 1, 3}).Draw(t, "tsmode")
	tail := func() []*Expr {
		if rapid.Bool().Draw(t, "tstail") {
			return []*Expr{term()}
		}
		return nil
	}
	a := &Expr{K: KSeqOf, Kids: append([]*Expr{tm(x.ch()), {K: KLTrim, Mode: mode, Kids: []*Expr{ex(KSeqOf, rf(s))}}}, tail()...)}
	b := &Expr{K: KSeqOf, Kids: append([]*Expr{{K: KRTrim, Mode: 2, Kids: []*Expr{tm(x.ch())}}, rf(s)}, tail()...)}
	host := rapid.IntRange(0, s-1).Draw(t, "tshost")
	alts := []*Expr{a, b}
	if rapid.Bool().Draw(t, "tsswap") {
		alts = []*Expr{b, a}
	}
	g.Rules[host] = &Expr{K: KAny, Kids: append(alts, g.Rules[host])}
	g.number()
}

// aliasSkeleton builds the shape in which a cached result list is consumed several times at
// one position: a nullable rule S with several results (so that its list has spare capacity
// and positions coincide) used by consecutive elements of one sequence, each of which
// extends the list: N -> Any(SeqOf(S, Any(S, y), Any(S, z)), body).
func aliasSkeleton(t *rapid.T, g *Grammar, o GenOpts) {
	term := func() *Expr {
		return tm(o.Alphabet[rapid.IntRange(0, len(o.Alphabet)-1).Draw(t, "ach")])
	}
	small := func() *Expr {
		n := rapid.IntRange(1, 3).Draw(t, "smalllen")
		e := &Expr{K: KSeqOf}
		for i := 0; i < n; i++ {
			e.Kids = append(e.Kids, term())
		}
		return e
	}
	var body *Expr
	switch rapid.IntRange(0, 4).Draw(t, "sbody") {
	case 0:
		body = ex(KSeqOf, ex(KOpt, term()), ex(KOpt, term()))
	case 1:
		body = ex(KAny, term(), &Expr{K: KEmpty}, ex(KSeqOf, term(), term()))
	case 2:
		body = ex(KAny, ex(KOpt, term()), ex(KSeqOf, term(), ex(KOpt, term())))
	case 3:
		body = ex(KOpt, ex(KAny, term(), ex(KSeqOf, term(), term())))
	default:
		body = ex(KSeqOf, ex(KOpt, term()), ex(KOpt, term()), ex(KOpt, term()))
	}
	for i := range g.Layer {
		g.Layer[i]++
	}
	g.Rules = append(g.Rules, body)
	g.Layer = append(g.Layer, 0)
	s := len(g.Rules) - 1
	host := rapid.IntRange(0, s-1).Draw(t, "ahost")
	use := func() *Expr {
		switch rapid.IntRange(0, 5).Draw(t, "ause") {
		case 0:
			return rf(s)
		case 1:
			return ex(KAny, rf(s), small())
		case 2:
			return ex(KAny, small(), rf(s))
		case 3:
			return ex(KOpt, rf(s))
		case 4:
			return ex(KAny, rf(s), small(), small())
		default:
			return ex(KAny, rf(s), term())
		}
	}
	seq := &Expr{K: KSeqOf}
	n := rapid.IntRange(2, 4).Draw(t, "auses")
	for i := 0; i < n; i++ {
		seq.Kids = append(seq.Kids, use())
	}
	if rapid.IntRange(0, 2).Draw(t, "aonly") == 0 {
		g.Rules[host] = seq
	} else {
		g.Rules[host] = ex(KAny, seq, g.Rules[host])
	}
	g.number()
}

// prefixAlternatives gives a rule several alternatives that share a prefix and fail at
// different depths (Choice/Any(SeqOf(a,b,c), SeqOf(a,d), ...)): the shape in which "keep the
// furthest error" bookkeeping matters, in every order of the alternatives.
func prefixAlternatives(t *rapid.T, g *Grammar, o GenOpts) {
	n := rapid.IntRange(2, 4).Draw(t, "wordlen")
	w := make([]byte, n)
	for i := range w {
		w[i] = o.Alphabet[rapid.IntRange(0, len(o.Alphabet)-1).Draw(t, "wch")]
	}
	k := rapid.IntRange(2, 4).Draw(t, "nalts")
	var alts []*Expr
	for i := 0; i < k; i++ {
		cut := rapid.IntRange(1, n).Draw(t, "cut")
		seq := &Expr{K: KSeqOf}
		for _, ch := range w[:cut] {
			seq.Kids = append(seq.Kids, tm(ch))
		}
		// a differing tail of 0-2 terminals
		for j := rapid.IntRange(0, 2).Draw(t, "tail"); j > 0; j-- {
			seq.Kids = append(seq.Kids, tm(o.Alphabet[rapid.IntRange(0, len(o.Alphabet)-1).Draw(t, "tch")]))
		}
		alts = append(alts, seq)
	}
	host := rapid.IntRange(0, len(g.Rules)-1).Draw(t, "phost")
	kind := KChoice
	if rapid.Bool().Draw(t, "pany") {
		kind = KAny
	}
	// the old body goes last: for a Choice the earlier alternatives are in negated position and
	// must not refer to rules of the same layer (terminal sequences never do)
	alts = append(alts, g.Rules[host])
	e := &Expr{K: kind, Kids: alts}
	if rapid.Bool().Draw(t, "pwrap") {
		// followed by something, so that a shorter alternative can match and the parse fail later
		e = &Expr{K: KSeqOf, Kids: []*Expr{e, tm(o.Alphabet[rapid.IntRange(0, len(o.Alphabet)-1).Draw(t, "pnext")])}}
	}
	g.Rules[host] = e
	g.number()
}

// genTower builds an operator-precedence tower of 3-6 memoized levels, every level directly
// left-recursive and entered at the same position as the levels above it:
// L_i -> L_i op_i L_{i+1} | L_{i+1},  L_last -> term | '(' L_0 ')'-like centre recursion.
func genTower(t *rapid.T, o GenOpts) *Grammar {
	n := rapid.IntRange(3, 6).Draw(t, "levels")
	g := &Grammar{Rules: make([]*Expr, n), Layer: make([]int, n)}
	term := func() *Expr {
		return tm(o.Alphabet[rapid.IntRange(0, len(o.Alphabet)-1).Draw(t, "tch")])
	}
	for i := 0; i < n-1; i++ {
		rec := ex(KSeqOf, rf(i), term(), rf(i+1))
		if rapid.IntRange(0, 3).Draw(t, "hiddenlevel") == 0 {
			rec = ex(KSeqOf, ex(KOpt, term()), rf(i), term(), rf(i+1))
		}
		alts := []*Expr{rec, rf(i + 1)}
		if rapid.IntRange(0, 2).Draw(t, "twoops") == 0 {
			alts = []*Expr{rec, ex(KSeqOf, rf(i), term(), rf(i+1)), rf(i + 1)}
		}
		if rapid.Bool().Draw(t, "swap") {
			alts[0], alts[len(alts)-1] = alts[len(alts)-1], alts[0]
		}
		g.Rules[i] = &Expr{K: KAny, Kids: alts}
	}
	last := []*Expr{term()}
	if rapid.Bool().Draw(t, "paren") {
		last = append(last, ex(KSeqOf, term(), rf(0), term()))
	}
	g.Rules[n-1] = &Expr{K: KAny, Kids: last}
	g.number()
	return g
}

// trimSkeleton: a memoized multi-result rule S (with an empty alternative) reached at one position
// both through trimming wrappers (LeftTrim, RightTrim, Trim, Single around a right-trimmed
// one-child sequence) and directly, with whitespace around it: the shapes in which a wrapper that
// adjusts positions in place reaches a node somebody else holds.
func trimSkeleton(t *rapid.T, g *Grammar, o GenOpts) {
	term := func() *Expr {
		return tm("ab"[rapid.IntRange(0, 1).Draw(t, "tch")])
	}
	var body *Expr
	switch rapid.IntRange(0, 3).Draw(t, "tsbody") {
	case 0:
		body = ex(KAny, ex(KOpt, term()), term())
	case 1:
		body = ex(KOpt, ex(KAny, term(), ex(KSeqOf, term(), term())))
	case 2:
		body = ex(KAny, term(), &Expr{K: KEmpty}, ex(KSeqOf, term(), term()))
	default:
		body = ex(KAny, term(), ex(KSeqOf, term(), term()), term())
	}
	for i := range g.Layer {
		g.Layer[i]++
	}
	g.Rules = append(g.Rules, body)
	g.Layer = append(g.Layer, 0)
	s := len(g.Rules) - 1
	mode := func() int { return rapid.SampledFrom([]int{2, 2, 2, 1, 0, 3}).Draw(t, "tmode") }
	wrap := func() *Expr {
		switch rapid.IntRange(0, 7).Draw(t, "twrap") {
		case 0:
			return &Expr{K: KLTrim, Mode: mode(), Kids: []*Expr{rf(s)}}
		case 1:
			return &Expr{K: KRTrim, Mode: mode(), Kids: []*Expr{rf(s)}}
		case 2:
			return &Expr{K: KSingle, Kids: []*Expr{{K: KRTrim, Mode: mode(), Kids: []*Expr{ex(KSeqOf, rf(s))}}}}
		case 3:
			return &Expr{K: KRTrim, Mode: mode(), Kids: []*Expr{ex(KSeqOf, rf(s))}}
		case 4:
			return &Expr{K: KRTrim, Mode: 2, Kids: []*Expr{{K: KLTrim, Mode: 2, Kids: []*Expr{rf(s)}}}}
		case 5:
			return ex(KOpt, rf(s))
		case 6:
			return &Expr{K: KLTrim, Mode: mode(), Kids: []*Expr{ex(KAny, rf(s), term())}}
		default:
			return rf(s)
		}
	}
	alt := func() *Expr {
		switch rapid.IntRange(0, 4).Draw(t, "talt") {
		case 0:
			return ex(KSeqOf, wrap(), term())
		case 1:
			return ex(KSeqOf, tm(' '), wrap()) // S right after an explicitly matched blank
		case 2:
			return ex(KSeqOf, wrap(), wrap())
		case 3:
			return ex(KSeqOf, term(), wrap(), term())
		default:
			return wrap()
		}
	}
	host := rapid.IntRange(0, s-1).Draw(t, "thost")
	e := &Expr{K: KAny}
	for i := rapid.IntRange(2, 4).Draw(t, "talts"); i > 0; i-- {
		e.Kids = append(e.Kids, alt())
	}
	if rapid.Bool().Draw(t, "tkeep") {
		e.Kids = append(e.Kids, g.Rules[host])
	}
	g.Rules[host] = e
	g.number()
}
