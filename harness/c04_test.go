package harness

import (
	"fmt"
	"strings"
	"testing"
	"unicode/utf8"

	"github.com/opsidian/parsley/ast"
	"github.com/opsidian/parsley/combinator"
	"github.com/opsidian/parsley/parsley"
	"pgregory.net/rapid"
)

// C04Case: any grammar (named or unnamed alternatives, memoized or not, unproductive and
// purely left-recursive rules included), root Sentence(N0).
type C04Case struct {
	G       *Grammar `json:"g"`
	In      string   `json:"in"`
	MemoAll bool     `json:"memoAll"`
	Interp  int      `json:"interp"`           // 0: strict concatenation, 1: concatenation that skips EMPTY
	PreLen  int      `json:"preLen,omitempty"` // > 0: the parsed file follows a file of that length
	Wide    int      `json:"wide,omitempty"`   // != 0: the model's terminal 'b' is this multi-byte rune for the library
}

func (c *C04Case) Describe() string {
	return fmt.Sprintf("grammar: %s input: %q memoAll=%v interp=%d preLen=%d", c.G, c.In, c.MemoAll, c.Interp, c.PreLen)
}

// concatInterp concatenates the values of the children (runes and strings).
func concatInterp(skipEmpty bool) parsley.Interpreter {
	return ast.InterpreterFunc(func(userCtx interface{}, node parsley.NonTerminalNode) (interface{}, parsley.Error) {
		var sb strings.Builder
		for _, ch := range node.Children() {
			if skipEmpty && ch.Token() == "EMPTY" {
				continue
			}
			v, err := parsley.EvaluateNode(userCtx, ch)
			if err != nil {
				return nil, err
			}
			switch x := v.(type) {
			case rune:
				sb.WriteRune(x)
			case string:
				sb.WriteString(x)
			default:
				return nil, parsley.NewErrorf(ch.Pos(), "unexpected value %T", v)
			}
		}
		return sb.String(), nil
	})
}

func checkC04(ci interface{}, st *Stats) error {
	c := ci.(*C04Case)
	g, in := c.G, c.In
	g.number()
	if singleSeesRTrim(g) {
		return Discard{"Single over a right-trimmed sequence: the reference does not describe it"}
	}
	classifyGrammar(g, st)
	ref := NewRef(g, in)
	want := ref.T[0][0]&(1<<uint(len(in))) != 0
	wide := c.Wide != 0
	if wide {
		if c.Wide < 0x80 || !utf8.ValidRune(rune(c.Wide)) {
			return Discard{"not a multi-byte rune"}
		}
		// from here on the input is what the library sees; the reference has already spoken
		in = widen(in, rune(c.Wide)).Lib
		st.Class("terminal b is a multi-byte rune")
	}
	modelIn := c.In
	memo := recursiveRules(g)
	if c.MemoAll {
		for i := range memo {
			memo[i] = true
		}
	}
	run := func(evaluate bool) (node parsley.Node, val interface{}, err error, berr error) {
		probe := NewProbe()
		probe.InLen = len(in)
		ctx, _, pb := NewCtxAt(in, c.PreLen)
		probe.Base = pb
		b := Build(g, BuildOpts{MemoRules: memo, Probe: probe, Interp: concatInterp(c.Interp == 1), Wide: rune(c.Wide)})
		defer func() {
			if r := recover(); r != nil {
				if _, ok := r.(budgetExceeded); ok {
					panic(r)
				}
				if be, ok := r.(boundExceeded); ok {
					berr = fmt.Errorf("does not terminate within the re-entry bound: %s", be.msg)
					return
				}
				what := "parsley.Parse"
				if evaluate {
					what = "parsley.Evaluate"
				}
				berr = fmt.Errorf("%s panicked: %v", what, r)
			}
		}()
		root := combinator.Sentence(b.NT[0])
		if len(in) >= 2 {
			// the grammar value has a history: it parsed a shorter input (the first half) before
			ctx0, _, _ := NewCtxAt(widen(modelIn[:len(modelIn)/2], rune(c.Wide)).Lib, 0)
			_, _ = parsley.Parse(ctx0, root)
		}
		if evaluate {
			val, err = parsley.Evaluate(ctx, root)
		} else {
			node, err = parsley.Parse(ctx, root)
		}
		return
	}
	node, _, err, berr := run(false)
	if berr != nil {
		return berr
	}
	if (node == nil) == (err == nil) {
		return fmt.Errorf("parsley.Parse returned node=%v and error=%v: exactly one of them must be non-nil", node, err)
	}
	if (err == nil) != want {
		return fmt.Errorf("Sentence(N0) success=%v, but the grammar derives the whole input: %v (N0 reaches %v from 0, input length %d); error: %v",
			err == nil, want, bitsList(ref.T[0][0]), len(in), err)
	}
	val, everr := interface{}(nil), error(nil)
	_, val, everr, berr = run(true)
	if berr != nil {
		return berr
	}
	if (everr == nil) && val == nil && err == nil {
		// a nil value without an error is only possible for an empty-string value; concat never returns nil
		return fmt.Errorf("parsley.Evaluate returned neither a value nor an error")
	}
	if err != nil {
		if everr == nil {
			return fmt.Errorf("Parse failed (%v) but Evaluate returned the value %#v", err, val)
		}
		st.Class("rejected")
		named := false
		for _, e := range g.exprs() {
			if e.Name != "" {
				named = true
			}
		}
		if !named {
			st.Class("rejected, no parser named")
			st.NonTrivial()
		}
		return nil
	}
	if hasKind(g, KSuppress) {
		st.Class("grammar with SuppressError")
	}
	st.Class("accepted")
	_, _, base := NewCtxAt(in, c.PreLen)
	if c.PreLen > 0 {
		st.Class("file placed after another file")
	}
	single := hasKind(g, KSingle)
	trims := hasKind(g, KLTrim) || hasKind(g, KRTrim) || wide || single // (no tree validation: offsets or shapes differ from the model's)
	lead := 0                                                           // whitespace a LeftTrim may skip before the first node
	if hasKind(g, KLTrim, KRTrim) {
		st.Class("accepted, grammar with whitespace trimming")
		lead, _, _, _ = judgeRun([]byte(in), 0, 2)
	}
	if single {
		st.Class("accepted, grammar with Single")
	}
	if int(node.Pos()) < base || int(node.Pos()) > base+lead || int(node.ReaderPos()) != base+len(in) {
		return fmt.Errorf("root spans %d..%d, want 0..%d", int(node.Pos())-base, int(node.ReaderPos())-base, len(in))
	}
	// Sentence returns the sequence [result, EOF]; a root that is the result itself would satisfy
	// the property just as well
	// (should Parse ever hand back several full parses as a list of alternatives, each of them has
	// to be such a tree; the property does not say how many are returned)
	var child parsley.Node
	for ai, alt := range alternatives(node) {
		ch := alt
		if rn, ok := alt.(*ast.NonTerminalNode); ok && len(rn.Children()) == 2 && rn.Children()[1].Token() == "EOF" {
			ch = rn.Children()[0]
		}
		if int(alt.Pos()) < base || int(alt.Pos()) > base+lead || int(alt.ReaderPos()) != base+len(in) {
			return fmt.Errorf("returned alternative %d spans %d..%d, want 0..%d", ai, int(alt.Pos())-base, int(alt.ReaderPos())-base, len(in))
		}
		if !trims && !NewValidator(ref, base).Valid(g.Rules[0], ch, 0) {
			return fmt.Errorf("the returned tree is no derivation of N0: %s", RenderNode(ch, base))
		}
		if int(ch.ReaderPos()) != base+len(in) {
			return fmt.Errorf("the selected parse ends at %d, not at the end of input", int(ch.ReaderPos())-base)
		}
		if ai == 0 {
			child = ch
		} else {
			st.Class("Parse returned a list of full parses")
		}
	}
	if child == nil {
		return fmt.Errorf("Parse returned an empty list of alternatives")
	}
	tr := NewTreeRef(ref, 50, 8)
	if tr.Capped || len(tr.T[0][0]) > 1 {
		st.Class("accepted, ambiguous grammar")
		st.NonTrivial()
	}
	if hasKind(g, KLTrim, KRTrim) {
		// the values are the terminals: the input without its whitespace
		in = strings.Map(func(r rune) rune {
			if r == ' ' || r == '\t' || r == '\n' || r == '\f' {
				return -1
			}
			return r
		}, in)
	}
	switch child.(type) {
	case *ast.NonTerminalNode:
		if c.Interp == 1 {
			if everr != nil || val != in {
				return fmt.Errorf("Evaluate with the concatenating interpreter returned %#v / %v, want the input %q (tree %s)", val, everr, in, RenderNode(child, 1))
			}
			st.Class("evaluated to the input")
		} else if everr == nil {
			if val != in {
				return fmt.Errorf("Evaluate returned %#v, want the input %q (tree %s)", val, in, RenderNode(child, 1))
			}
			st.Class("evaluated to the input")
		} else {
			st.Class("evaluation error (EMPTY has no value)")
			if !strings.Contains(everr.Error(), "node does not have a value") {
				return fmt.Errorf("unexpected evaluation error %v", everr)
			}
		}
	case *ast.TerminalNode:
		if first, _ := utf8.DecodeRuneInString(in); everr != nil || val != first {
			return fmt.Errorf("Evaluate returned %#v / %v for a single terminal, want %q", val, everr, in)
		}
	default:
		if everr == nil {
			return fmt.Errorf("Evaluate returned %#v for %s, which has no value", val, RenderNode(child, 1))
		}
	}
	return nil
}

func init() {
	register(&Property{
		ID:      "C04",
		NewCase: func() interface{} { return &C04Case{} },
		Gen: func(t *rapid.T) interface{} {
			o := genOptsC01()
			o.Names = rapid.Bool().Draw(t, "names")
			o.SeqOpts = rapid.IntRange(0, 2).Draw(t, "seqopts") == 1
			o.RuleNames = rapid.IntRange(0, 3).Draw(t, "rulenames") == 1
			o.Suppress = rapid.IntRange(0, 3).Draw(t, "suppress") == 0
			o.RefTrims = rapid.IntRange(0, 3).Draw(t, "reftrims") == 0
			o.SingleSafe = rapid.IntRange(0, 4).Draw(t, "singlesafe") == 0
			wideRune := 0
			if !o.RefTrims && rapid.IntRange(0, 5).Draw(t, "wide") == 0 {
				wideRune = int(rapid.SampledFrom([]rune{0x80, 0xe9, 0xff, 0x100, 0x7ff, 0x800, 0x20ac, 0xfffd, 0xffff, 0x10000, 0x1f600}).Draw(t, "wideRune"))
			}
			if rapid.IntRange(0, 4).Draw(t, "extramemo") == 0 {
				o.ExtraMemo = 4
			}
			if rapid.IntRange(0, 3).Draw(t, "noskeleton") == 0 {
				o.Skeleton = false
			}
			g := GenGrammar(t, o)
			pre := 0
			if rapid.IntRange(0, 3).Draw(t, "placed") == 0 {
				pre = rapid.IntRange(1, 20).Draw(t, "preLen")
				if rapid.IntRange(0, 9).Draw(t, "hugepre") == 4 {
					pre = rapid.SampledFrom([]int{65533, 65534, 65536, 70000, 140000}).Draw(t, "hugeLen")
				}
			}
			return &C04Case{G: g, In: GenInput(t, g, o), MemoAll: rapid.Bool().Draw(t, "memoAll"), Interp: rapid.IntRange(0, 1).Draw(t, "interp"), PreLen: pre, Wide: wideRune}
		},
		Check: checkC04,
	})
}

func TestC04(t *testing.T) { RunProperty(t, "C04") }
